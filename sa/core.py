"""Plumbing shared by every check: source loading (with in-memory overlay), the three-valued
report, known findings, replay files and evidence files.

Nothing in here (or anywhere under /verif/sa, /verif/checks) imports or executes gearpy."""
from __future__ import annotations

import json
import os
import pathlib
import sys
import time

VERIF = pathlib.Path(__file__).resolve().parent.parent
REPO = pathlib.Path(os.environ.get('VERIF_REPO', '/repo'))
KNOWN_FINDINGS_FILE = VERIF / 'known_findings.json'

HOLDS, VIOLATION, CANNOT, NOTE = 'HOLDS', 'VIOLATION', 'CANNOT-DECIDE', 'NOTE'


class AnalysisError(Exception):
    """The analysis cannot decide (construct outside the enumerated idioms, vanished anchor).
    Never a pass, never a violation: exit code 2."""


def load_sources(root=None, overlay=None) -> dict:
    """{relative path -> text} for gearpy/**/*.py and the shipped CSV tables, read from the
    working tree on every call.  `overlay` replaces/adds entries (used by the self-tests)."""
    root = pathlib.Path(root or REPO)
    src = {}
    pkg = root / 'gearpy'
    if not pkg.is_dir():
        raise AnalysisError(f'package directory {pkg} not found')
    for p in sorted(pkg.rglob('*.py')):
        src[str(p.relative_to(root))] = p.read_text()
    for p in sorted(pkg.rglob('*.csv')):
        src[str(p.relative_to(root))] = p.read_text()
    if overlay:
        src.update(overlay)
    return src


class Instance:
    __slots__ = ('rule', 'construct', 'status', 'detail', 'loc', 'extra')

    def __init__(self, rule, construct, status, detail='', loc='', extra=None):
        self.rule, self.construct, self.status = rule, construct, status
        self.detail, self.loc, self.extra = detail, loc, extra or {}

    @property
    def key(self):
        return f'{self.rule} @ {self.construct}'

    def as_dict(self):
        d = {'rule': self.rule, 'construct': self.construct, 'status': self.status}
        if self.detail:
            d['detail'] = self.detail
        if self.loc:
            d['loc'] = self.loc
        d.update(self.extra)
        return d


class Report:
    """Collects rule instances for one property on one source map."""

    def __init__(self, pid: str):
        self.pid = pid
        self.instances: list[Instance] = []
        self.inspected = 0            # AST constructs looked at (evaluations)
        self.analysed = {}            # free-form: modules, functions, call sites, loops
        self.min_counts = {}          # rule -> (minimum number of instances, reason)
        self.explanations = []
        self.assumptions = []
        self.exhaustive = None
        self.extra_coverage = {}

    # -- recording
    def holds(self, rule, construct, detail='', loc='', **extra):
        self.instances.append(Instance(rule, construct, HOLDS, detail, loc, extra))

    def violation(self, rule, construct, what, loc='', **extra):
        if 'Unk(text=' in str(what):
            # the explanation shows a value the evaluator could not evaluate (an opaque call, a construct outside its idioms): a
            # mismatch against it is not a verdict about the code - the obligation is undecided (exit 2), not violated
            self.instances.append(Instance(rule, construct, CANNOT, 'not evaluated: ' + str(what), loc, extra))
            return
        self.instances.append(Instance(rule, construct, VIOLATION, what, loc, extra))

    def cannot(self, rule, construct, why, loc='', **extra):
        self.instances.append(Instance(rule, construct, CANNOT, why, loc, extra))

    def note(self, rule, construct, text, loc='', **extra):
        self.instances.append(Instance(rule, construct, NOTE, text, loc, extra))

    def decide(self, ok, rule, construct, what_if_bad, detail='', loc='', **extra):
        if ok:
            self.holds(rule, construct, detail, loc, **extra)
        else:
            self.violation(rule, construct, what_if_bad, loc, **extra)
        return ok

    def inspect(self, n=1):
        self.inspected += n

    def require(self, rule, n, reason=''):
        """fail closed: the rule must have matched at least n instances (any status)"""
        self.min_counts[rule] = (n, reason)

    def explain(self, text):
        self.explanations.append(text)

    def assume(self, text):
        if text not in self.assumptions:
            self.assumptions.append(text)

    def absorb(self, other: 'Report', rule_map):
        """take over the instances of a dependency's report, renaming rule prefixes (old prefix -> new prefix)"""
        for i in other.instances:
            rule = i.rule
            for a, b in rule_map.items():
                if rule == a or rule.startswith(a + '.'):
                    rule = b + rule[len(a):]
                    break
            else:
                continue
            self.instances.append(Instance(rule, i.construct, i.status, i.detail, i.loc, i.extra))
        self.inspected += other.inspected

    # -- queries
    def by_status(self, st):
        return [i for i in self.instances if i.status == st]

    def violations(self):
        return self.by_status(VIOLATION)

    def violation_keys(self):
        return sorted({i.key for i in self.violations()})

    def count_shortfalls(self):
        out = []
        for rule, (n, reason) in self.min_counts.items():
            have = sum(1 for i in self.instances if i.rule == rule or i.rule.startswith(rule + '.'))
            if have < n:
                out.append((rule, have, n, reason))
        return out


def load_known_findings():
    if not KNOWN_FINDINGS_FILE.exists():
        return []
    return json.loads(KNOWN_FINDINGS_FILE.read_text())['findings']


def finish(rep: Report, tier: str, seed: int, t0: float, selftest=None) -> int:
    """Apply the known-findings file, print the verdict lines, write replay + evidence files,
    return the exit code (0 holds / 1 violation / 2 analysis error)."""
    known = [k for k in load_known_findings() if k.get('property') == rep.pid]
    known_keys = {k['key']: k for k in known if k.get('status') == 'known'}
    evdir = VERIF / 'evidence'
    (evdir / 'replay').mkdir(parents=True, exist_ok=True)

    for rule, have, n, reason in rep.count_shortfalls():
        rep.cannot(rule, '<instance-count>', f'matched {have} instance(s), expected at least {n}'
                   + (f' ({reason})' if reason else ''))

    viol = rep.violations()
    unlisted, listed = [], []
    for v in viol:
        (listed if v.key in known_keys else unlisted).append(v)
    seen = set()
    for v in listed:
        if v.key in seen:
            continue
        seen.add(v.key)
        print(f'KNOWN-FINDING: property={rep.pid} {v.key}: {known_keys[v.key]["what"]}')
    replay_paths = []
    seenu = {}
    for v in unlisted:
        if v.key in seenu:
            continue
        idx = len(seenu)
        path = evdir / 'replay' / f'{rep.pid}_{idx}.json'
        seenu[v.key] = path
        path.write_text(json.dumps({
            'property': rep.pid, 'key': v.key, **v.as_dict(),
            'how_to_rerun': f'cd /verif && python3 checks/run.py {rep.pid} --tier quick',
        }, indent=1, default=str))
        replay_paths.append(str(path))
        print(f'  {v.status} {v.key} [{v.loc}] {v.detail}')
        print(f'VIOLATION property={rep.pid} replay={path}')
    cannot = rep.by_status(CANNOT)
    for c in cannot:
        print(f'ANALYSIS-ERROR property={rep.pid} {c.key} [{c.loc}] {c.detail}')
    for nt in rep.by_status(NOTE):
        print(f'NOTE property={rep.pid} {nt.key} [{nt.loc}] {nt.detail}')

    code = 1 if unlisted else (2 if cannot else 0)

    holds = rep.by_status(HOLDS)
    distinct = len({i.key for i in rep.instances if i.status in (HOLDS, VIOLATION)})
    samples = []
    seen_rules = set()
    for i in rep.instances:
        if i.status in (HOLDS, VIOLATION) and i.rule not in seen_rules:
            seen_rules.add(i.rule)
            samples.append(i.as_dict())
        if len(samples) >= 12:
            break
    per_rule = {}
    for i in rep.instances:
        d = per_rule.setdefault(i.rule, {})
        d[i.status] = d.get(i.status, 0) + 1
    obligations = len(holds) + len(viol) + len(cannot)
    coverage = {
        'explanation': ' '.join(rep.explanations) or f'static rules for {rep.pid}',
        'obligations': obligations,
        'discharged': len(holds),
        'evaluations': max(rep.inspected, obligations, 1),
        'distinct_nontrivial': distinct,
        'rule': 'one obligation per (rule, construct) pair found in the parsed source of /repo; '
                'non-trivial = the instance inspected at least one construct of the repository '
                'and was decided HOLDS or VIOLATION; distinct = distinct (rule, construct) keys',
        'samples': samples or [{'note': 'no instance decided'}],
        'per_rule': per_rule,
        'analysed': rep.analysed,
        'known_findings': sorted(seen),
        'unlisted_violations': sorted(str(k) for k in seenu),
        'cannot_decide': [c.as_dict() for c in cannot][:20],
        'notes': [n.as_dict() for n in rep.by_status(NOTE)][:20],
        'checker_cmd': f'python3 checks/run.py {rep.pid} --tier {tier}',
        'trusted_base': ['CPython ast parser', 'engines under /verif/sa', 'oracles under /verif/sa/spec'],
    }
    if rep.exhaustive is not None:
        coverage['exhaustive'] = bool(rep.exhaustive)
    coverage.update(rep.extra_coverage)
    if selftest is not None:
        coverage['selftest'] = selftest
    ev = {
        'property_id': rep.pid, 'tier': tier, 'seed': int(seed), 'level': 'other',
        'coverage': coverage,
        'assumptions': rep.assumptions or ['source of /repo parsed by CPython ast is what runs'],
        'wall_s': round(time.time() - t0, 3),
        'violations': len(seenu),
    }
    (evdir / f'{rep.pid}.json').write_text(json.dumps(ev, indent=1, default=str))
    print(f'{rep.pid} [{tier}] obligations={obligations} holds={len(holds)} '
          f'known={len(seen)} violations={len(seenu)} cannot-decide={len(cannot)} '
          f'wall={ev["wall_s"]}s -> exit {code}')
    return code
