"""Helpers shared by the formula checks: run a method and split its paths."""
from __future__ import annotations

import ast

from .sx import SX, State, Ov, Outcome


def method_paths(sx: SX, cls: str, meth: str, field_suffix: str = None, setter=False, args=None, self_val=None):
    """-> (member, stores [(guards, value, lineno, state)], raises [(guards, exc, lineno)], others)
    stores: completing paths with exactly one store to a self field ending with field_suffix"""
    model = sx.model
    m = model.find_setter(cls, meth) if setter else model.member(cls, meth)
    outs = sx.run(m.node, m.module, cls, self_val, args)
    stores, raises, others = [], [], []
    for o in outs:
        if o.kind == 'raise':
            raises.append((list(o.state.guards), o.value, o.loc))
            continue
        if field_suffix is None:
            stores.append((list(o.state.guards), o.value if o.kind == 'return' else None, o.loc, o.state))
            continue
        st = [e for e in o.state.effects if e[0] == 'store' and e[1] == 'self' and e[2].endswith(field_suffix)]
        if len(st) == 1:
            stores.append((list(o.state.guards), st[0][3], st[0][4], o.state))
        else:
            others.append((o, f'{len(st)} stores to *{field_suffix}'))
    return m, stores, raises, others


def eval_in_state(sx: SX, cls: str, expr: str, state: State = None, module=None):
    """value of a `self....` expression in a given heap state"""
    frame = {'module': module or sx.model.classes[cls].module, 'cls': cls,
             'fn': ast.parse('def probe(): pass').body[0], 'depth': 0}
    st = (state or State()).copy()
    st.env = {'self': Ov('self', cls, True)}
    rs = [r for r in sx.eval_x(ast.parse(expr, mode='eval').body, st, frame)]
    return rs


def truth_table(paths, spec_dnf, ctx=None):
    """Finite-domain comparison of a boolean function given as code paths [(guards, bool)] with a
    spec given as a DNF of guard conjunctions.  Atoms = distinct guard keys (kind, key); every
    assignment of the atoms is enumerated (exhaustive).  Returns list of disagreeing assignments."""
    atoms = []

    def key(g):
        return (g.kind, g.key if g.kind != 'cmp' else repr(g.rat))

    def add(g):
        k = key(g)
        if k not in atoms:
            atoms.append(k)
    for gs, _ in paths:
        for g in gs:
            add(g)
    for conj in spec_dnf:
        for g in conj:
            add(g)
    if len(atoms) > 12:
        return None, atoms

    def sat(gs, assign):
        for g in gs:
            want = g.pol if g.kind != 'cmp' else True
            if assign[key(g)] != want:
                return False
        return True
    bad = []
    n = 0
    for bits in range(2 ** len(atoms)):
        assign = {a: bool(bits >> i & 1) for i, a in enumerate(atoms)}
        hits = [v for gs, v in paths if sat(gs, assign)]
        if not hits:
            continue        # infeasible combination for the code (e.g. contradictory cmp atoms)
        n += 1
        code = hits[0]
        if any(h != code for h in hits):
            bad.append((assign, 'ambiguous'))
            continue
        want = any(sat(conj, assign) for conj in spec_dnf)
        if code != want:
            bad.append((assign, f'code={code} spec={want}'))
    return bad, atoms
