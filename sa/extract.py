"""Helpers shared by the formula checks: run a method and split its paths."""
from __future__ import annotations

import ast

from .sx import SX, State, Ov, Outcome


def method_paths(sx: SX, cls: str, meth: str, field_suffix: str = None, setter=False, args=None, self_val=None):
    """-> (member, stores [(guards, value, lineno, state)], raises [(guards, exc, lineno)], others)
    stores: completing paths with exactly one store to a self field ending with field_suffix"""
    model = sx.model
    m = model.find_setter(cls, meth) if setter else model.member(cls, meth)
    outs = sx.run(m.node, m.module, cls, self_val, args)
    stores, raises, others = [], [], []
    for o in outs:
        if o.kind == 'raise':
            raises.append((list(o.state.guards), o.value, o.loc))
            continue
        if field_suffix is None:
            stores.append((list(o.state.guards), o.value if o.kind == 'return' else None, o.loc, o.state))
            continue
        st = [e for e in o.state.effects if e[0] == 'store' and e[1] == 'self' and e[2].endswith(field_suffix)]
        if len(st) == 1:
            stores.append((list(o.state.guards), st[0][3], st[0][4], o.state))
        else:
            others.append((o, f'{len(st)} stores to *{field_suffix}'))
    return m, stores, raises, others


def eval_in_state(sx: SX, cls: str, expr: str, state: State = None, module=None):
    """value of a `self....` expression in a given heap state"""
    frame = {'module': module or sx.model.classes[cls].module, 'cls': cls,
             'fn': ast.parse('def probe(): pass').body[0], 'depth': 0}
    st = (state or State()).copy()
    st.env = {'self': Ov('self', cls, True)}
    rs = [r for r in sx.eval_x(ast.parse(expr, mode='eval').body, st, frame)]
    return rs


def truth_table(paths, spec_dnf, ctx=None, excluded_dnf=()):
    """Finite-domain comparison of a boolean function given as code paths [(guards, bool)] with a
    spec given as a DNF of guard conjunctions.  Boolean atoms = distinct non-comparison guard keys;
    every comparison guard `d rel 0` is read as a constraint on the sign of its canonical difference,
    a three-valued variable shared by all guards about +-d.  Every assignment is enumerated
    (exhaustive).  Returns (list of disagreeing assignments, variables)."""
    import itertools
    from .sx import _SIGNS, _FLIP
    bools, diffs = [], []          # diffs: list of Rat representatives

    def var_of(g):
        if g.kind != 'cmp':
            k = (g.kind, g.key)
            if k not in bools:
                bools.append(k)
            return ('b', bools.index(k), g.pol)
        for i, d in enumerate(diffs):
            if d.eq(g.rat):
                return ('s', i, frozenset(_SIGNS[g.key[0]]))
            if d.eq(-g.rat):
                return ('s', i, frozenset(_FLIP[x] for x in _SIGNS[g.key[0]]))
        diffs.append(g.rat)
        return ('s', len(diffs) - 1, frozenset(_SIGNS[g.key[0]]))

    cpaths = [([var_of(g) for g in gs], v) for gs, v in paths]
    cspec = [[var_of(g) for g in conj] for conj in spec_dnf]
    cexcl = [[var_of(g) for g in conj] for conj in excluded_dnf]      # states an invariant established elsewhere rules out
    nvars = len(bools) + len(diffs)
    if len(bools) + 2 * len(diffs) > 16:
        return None, bools + [repr(d) for d in diffs]

    def sat(cs, ba, sa):
        for kind, i, want in cs:
            if kind == 'b':
                if ba[i] != want:
                    return False
            elif sa[i] not in want:
                return False
        return True
    bad = []
    for ba in itertools.product((False, True), repeat=len(bools)):
        for sa in itertools.product('-0+', repeat=len(diffs)):
            hits = [v for cs, v in cpaths if sat(cs, ba, sa)]
            if not hits:
                continue        # combination no code path covers (e.g. excluded by an earlier raise)
            if any(sat(conj, ba, sa) for conj in cexcl):
                continue
            code = hits[0]
            assign = {bools[i]: ba[i] for i in range(len(bools))}
            assign.update({('sign', repr(diffs[i])[:80]): sa[i] for i in range(len(diffs))})
            if any(h != code for h in hits):
                bad.append((assign, 'ambiguous'))
                continue
            want = any(sat(conj, ba, sa) for conj in cspec)
            if code != want:
                bad.append((assign, f'code={code} spec={want}'))
    return bad, bools + [repr(d)[:60] for d in diffs]



def purity_scan(model, cls, fn, allowed_self_stores=()):
    """AST rule: a method that must answer from the present state only may not keep or consult memoised
    state.  Reports [(lineno, what)]: stores into containers that are not locals, stores to self attributes other
    than the allowed result attributes, mutating calls on non-local containers, reads of class-level mutable
    attributes, global/nonlocal."""
    import ast as _ast
    out = []
    locals_ = {a.arg for a in fn.args.args}
    for n in _ast.walk(fn):
        if isinstance(n, (_ast.Assign, _ast.AugAssign, _ast.AnnAssign)):
            tg = n.targets if isinstance(n, _ast.Assign) else [n.target]
            for t in tg:
                for x in _ast.walk(t):
                    if isinstance(x, _ast.Name) and isinstance(x.ctx, _ast.Store):
                        locals_.add(x.id)
        if isinstance(n, (_ast.For, _ast.comprehension)):
            for x in _ast.walk(n.target):
                if isinstance(x, _ast.Name):
                    locals_.add(x.id)
    class_mutables = set()
    for c in model.mro(cls) if cls else []:
        ci = model.classes.get(c)
        if ci:
            for name, v in ci.class_attrs.items():
                if isinstance(v, (_ast.Dict, _ast.List, _ast.Set)) or (isinstance(v, _ast.Call) and _ast.unparse(v.func) in ('dict', 'list', 'set', 'defaultdict')):
                    if name != '__UNITS':
                        class_mutables.add(name)

    def root(x):
        while isinstance(x, (_ast.Attribute, _ast.Subscript)):
            x = x.value
        return x
    for n in _ast.walk(fn):
        if isinstance(n, (_ast.Global, _ast.Nonlocal)):
            out.append((n.lineno, f'{type(n).__name__.lower()} state'))
        if isinstance(n, _ast.Subscript) and isinstance(n.ctx, _ast.Store):
            r = root(n)
            if not (isinstance(r, _ast.Name) and r.id in locals_ and r.id != 'self'):
                out.append((n.lineno, f'stores into the shared container `{_ast.unparse(n.value)[:50]}`'))
            elif isinstance(r, _ast.Name) and r.id == 'self':
                out.append((n.lineno, f'stores into `{_ast.unparse(n.value)[:50]}`'))
        if isinstance(n, _ast.Attribute) and isinstance(n.ctx, _ast.Store) and isinstance(n.value, _ast.Name) and n.value.id == 'self':
            if n.attr not in allowed_self_stores:
                out.append((n.lineno, f'stores the attribute self.{n.attr}'))
        if isinstance(n, _ast.Attribute) and isinstance(n.ctx, _ast.Load) and n.attr in class_mutables:
            out.append((n.lineno, f'consults the class-level mutable `{n.attr}` (shared by all instances)'))
        if isinstance(n, _ast.Call) and isinstance(n.func, _ast.Attribute) and n.func.attr in (
                'setdefault', 'update', 'pop', 'popitem', 'clear', 'append', 'extend', 'insert', 'remove'):
            r = root(n.func.value)
            if not (isinstance(r, _ast.Name) and r.id in locals_ and r.id != 'self'):
                out.append((n.lineno, f'mutates the shared container `{_ast.unparse(n.func.value)[:50]}`'))
        if isinstance(n, _ast.Call) and isinstance(n.func, _ast.Name) and n.func.id in ('lru_cache', 'cache', 'getattr', 'setattr', 'hasattr'):
            if n.func.id in ('setattr',) or (n.func.id in ('getattr', 'hasattr') and n.args and isinstance(n.args[0], _ast.Name) and n.args[0].id == 'self'
                                               and len(n.args) > 1 and isinstance(n.args[1], _ast.Constant) and str(n.args[1].value).startswith('_')):
                out.append((n.lineno, f'dynamic attribute access `{_ast.unparse(n)[:50]}` (hidden state)'))
    for d in fn.decorator_list:
        if 'cache' in _ast.unparse(d):
            out.append((fn.lineno, f'memoising decorator {_ast.unparse(d)}'))
    return out
