"""Helpers shared by the formula checks: run a method and split its paths."""
from __future__ import annotations

import ast

from .sx import SX, State, Ov, Outcome


def method_paths(sx: SX, cls: str, meth: str, field_suffix: str = None, setter=False, args=None, self_val=None):
    """-> (member, stores [(guards, value, lineno, state)], raises [(guards, exc, lineno)], others)
    stores: completing paths with exactly one store to a self field ending with field_suffix"""
    model = sx.model
    m = model.find_setter(cls, meth) if setter else model.member(cls, meth)
    outs = sx.run(m.node, m.module, cls, self_val, args)
    stores, raises, others = [], [], []
    for o in outs:
        if o.kind == 'raise':
            raises.append((list(o.state.guards), o.value, o.loc))
            continue
        if field_suffix is None:
            stores.append((list(o.state.guards), o.value if o.kind == 'return' else None, o.loc, o.state))
            continue
        st = [e for e in o.state.effects if e[0] == 'store' and e[1] == 'self' and e[2].endswith(field_suffix)]
        if len(st) == 1:
            stores.append((list(o.state.guards), st[0][3], st[0][4], o.state))
        else:
            others.append((o, f'{len(st)} stores to *{field_suffix}'))
    return m, stores, raises, others


def eval_in_state(sx: SX, cls: str, expr: str, state: State = None, module=None):
    """value of a `self....` expression in a given heap state"""
    frame = {'module': module or sx.model.classes[cls].module, 'cls': cls,
             'fn': ast.parse('def probe(): pass').body[0], 'depth': 0}
    st = (state or State()).copy()
    st.env = {'self': Ov('self', cls, True)}
    rs = [r for r in sx.eval_x(ast.parse(expr, mode='eval').body, st, frame)]
    return rs


def truth_table(paths, spec_dnf, ctx=None):
    """Finite-domain comparison of a boolean function given as code paths [(guards, bool)] with a
    spec given as a DNF of guard conjunctions.  Boolean atoms = distinct non-comparison guard keys;
    every comparison guard `d rel 0` is read as a constraint on the sign of its canonical difference,
    a three-valued variable shared by all guards about +-d.  Every assignment is enumerated
    (exhaustive).  Returns (list of disagreeing assignments, variables)."""
    import itertools
    from .sx import _SIGNS, _FLIP
    bools, diffs = [], []          # diffs: list of Rat representatives

    def var_of(g):
        if g.kind != 'cmp':
            k = (g.kind, g.key)
            if k not in bools:
                bools.append(k)
            return ('b', bools.index(k), g.pol)
        for i, d in enumerate(diffs):
            if d.eq(g.rat):
                return ('s', i, frozenset(_SIGNS[g.key[0]]))
            if d.eq(-g.rat):
                return ('s', i, frozenset(_FLIP[x] for x in _SIGNS[g.key[0]]))
        diffs.append(g.rat)
        return ('s', len(diffs) - 1, frozenset(_SIGNS[g.key[0]]))

    cpaths = [([var_of(g) for g in gs], v) for gs, v in paths]
    cspec = [[var_of(g) for g in conj] for conj in spec_dnf]
    nvars = len(bools) + len(diffs)
    if len(bools) + 2 * len(diffs) > 16:
        return None, bools + [repr(d) for d in diffs]

    def sat(cs, ba, sa):
        for kind, i, want in cs:
            if kind == 'b':
                if ba[i] != want:
                    return False
            elif sa[i] not in want:
                return False
        return True
    bad = []
    for ba in itertools.product((False, True), repeat=len(bools)):
        for sa in itertools.product('-0+', repeat=len(diffs)):
            hits = [v for cs, v in cpaths if sat(cs, ba, sa)]
            if not hits:
                continue        # combination no code path covers (e.g. excluded by an earlier raise)
            code = hits[0]
            assign = {bools[i]: ba[i] for i in range(len(bools))}
            assign.update({('sign', repr(diffs[i])[:80]): sa[i] for i in range(len(diffs))})
            if any(h != code for h in hits):
                bad.append((assign, 'ambiguous'))
                continue
            want = any(sat(conj, ba, sa) for conj in cspec)
            if code != want:
                bad.append((assign, f'code={code} spec={want}'))
    return bad, bools + [repr(d)[:60] for d in diffs]
