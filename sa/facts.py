"""Facts extracted from constructors: which fields are validated (sign, presence) before storing."""
from __future__ import annotations

from .sx import SX, N, Q, Dyn, Ov


def ctor_paths(sx: SX, cls: str):
    m = sx.model.member(cls, '__init__')
    return m, sx.run(m.node, m.module, cls)


def _single_atom(t):
    """(atom, sign) if the Rat is +-atom (constant denominator), else None"""
    if not t.d.is_const() or len(t.n.t) != 1:
        return None
    (mono, c), = t.n.t.items()
    if len(mono) == 1 and mono[0][1] == 1 and abs(c / t.d.const_value()) == 1 and mono[0][0] != 'pi':
        return mono[0][0], (c / t.d.const_value() > 0)
    return None


def validated_signs(sx: SX, cls: str):
    """{field atom ('self._C__x') or param: 'pos'|'nonneg'} proven on *every* completing path of
    cls.__init__ on which the parameter is not None.  Also returns the param -> field map."""
    from . import sx as sxm
    saved = set(sxm.POSITIVE_ATOMS)
    sxm.POSITIVE_ATOMS.clear()       # facts are derived without presupposing any of them
    try:
        m, outs = ctor_paths(sx, cls)
    finally:
        sxm.POSITIVE_ATOMS.update(saved)
    done = [o for o in outs if o.kind in ('fall', 'return')]
    param_field = {}
    for o in done:
        for e in o.state.effects:
            if e[0] == 'store' and e[1] == 'self':
                v = e[3]
                t = getattr(v, 'term', None)
                if t is not None:
                    sa = _single_atom(t)
                    if sa and sa[1]:
                        param_field.setdefault(sa[0], set()).add(f'self.{sx.canon_field(cls, e[2])}')
    facts = {}
    params = set(param_field)
    for p in params:
        kinds = []
        for o in done:
            isnone = any(g.kind == 'isnone' and g.key == (p,) and g.pol for g in o.state.guards)
            if isnone:
                continue
            k = None
            nonzero = False
            for g in o.state.guards:
                if g.kind != 'cmp':
                    continue
                sa = _single_atom(g.rat)
                if not sa or sa[0] != p:
                    continue
                rel, positive_coeff = g.key[0], sa[1]
                # guard is  (+-p) rel 0
                if not positive_coeff and rel == '<':
                    k = 'pos'
                elif not positive_coeff and rel == '<=' and k is None:
                    k = 'nonneg'
                elif rel == '!=':
                    nonzero = True
            if k == 'nonneg' and nonzero:
                k = 'pos'           # p >= 0 and p != 0 (a validation written as `< 0 or (== 0 and strict)`)
            kinds.append(k)
        if kinds and all(k == 'pos' for k in kinds):
            facts[p] = 'pos'
        elif kinds and all(k in ('pos', 'nonneg') for k in kinds):
            facts[p] = 'nonneg'
    return facts, param_field


def positive_atoms(sx: SX, cls: str):
    facts, pf = validated_signs(sx, cls)
    out = set()
    for p, k in facts.items():
        if k == 'pos':
            out.add(p)
            out |= pf.get(p, set())
    return out


def ctor_field_defs(sx: SX, cls: str):
    """{field atom -> defining Rat in terms of other field atoms} for private fields whose stored
    value is a function of constructor parameters (e.g. HelicalGear's transverse pressure angle),
    taken from the completing constructor paths (all paths storing the field must agree) and valid
    only for fields with no writer outside __init__."""
    import ast
    m, outs = ctor_paths(sx, cls)
    done = [o for o in outs if o.kind in ('fall', 'return')]
    ctx = sx.ctx
    # writers outside __init__ anywhere in the class hierarchy
    written_elsewhere = set()
    for c in sx.model.mro(cls):
        ci = sx.model.classes.get(c)
        if not ci:
            continue
        for mem in ci.all_members():
            if mem.name == '__init__':
                continue
            for n in ast.walk(mem.node):
                if isinstance(n, ast.Attribute) and isinstance(n.ctx, ast.Store) and isinstance(n.value, ast.Name) \
                        and n.value.id == 'self' and n.attr.startswith('__') and not n.attr.endswith('__'):
                    written_elsewhere.add(sx.model.mangle(c, n.attr))
    param_to_field = {}
    finals = []
    pnames = {a.arg for a in m.node.args.args}
    for o in done:
        final = {}
        for e in o.state.effects:
            if e[0] == 'store' and e[1] == 'self':
                final[e[2]] = e[3]
        finals.append(final)
        for f, v in final.items():
            t = getattr(v, 'term', None)
            if t is not None:
                sa = _single_atom(t)
                if sa and sa[1] and sa[0] in pnames:
                    param_to_field.setdefault(sa[0], f'self.{sx.canon_field(cls, f)}')
    mapping = {}
    from .algebra import Rat
    for p, f in param_to_field.items():
        mapping[p] = Rat.atom(f)
        mapping[f'F[{p}]'] = None
    defs = {}
    conflict = set()
    for final in finals:
        for f, v in final.items():
            t = getattr(v, 'term', None)
            if t is None or f in written_elsewhere:
                continue
            sa = _single_atom(t)
            if sa and sa[1] and sa[0] in pnames:
                continue            # plain parameter copy
            atoms = set()
            todo = list(t.atoms())
            while todo:
                a = todo.pop()
                if a in atoms:
                    continue
                atoms.add(a)
                if a in ctx.defs:
                    for x in ctx.defs[a][1]:
                        todo.extend(x.atoms())
            sub = {}
            for a in atoms:
                if a in param_to_field:
                    sub[a] = Rat.atom(param_to_field[a])
            t2 = ctx.subst(t, sub) if sub else t
            name = f'self.{sx.canon_field(cls, f)}'
            if name in defs and not ctx.eq(defs[name], t2):
                conflict.add(name)
            defs[name] = t2
    for c in conflict:
        defs.pop(c, None)
    return defs


def nonneg_atoms(sx: SX, cls: str):
    """atoms (parameters and the fields they are stored in) every completing constructor path proves >= 0"""
    facts, pf = validated_signs(sx, cls)
    out = set()
    for p, k in facts.items():
        if k in ('pos', 'nonneg'):
            out.add(p)
            out |= pf.get(p, set())
    return out
