"""Facts extracted from constructors: which fields are validated (sign, presence) before storing."""
from __future__ import annotations

from .sx import SX, N, Q, Dyn, Ov


def ctor_paths(sx: SX, cls: str):
    m = sx.model.member(cls, '__init__')
    return m, sx.run(m.node, m.module, cls)


def _single_atom(t):
    """(atom, sign) if the Rat is +-atom (constant denominator), else None"""
    if not t.d.is_const() or len(t.n.t) != 1:
        return None
    (mono, c), = t.n.t.items()
    if len(mono) == 1 and mono[0][1] == 1:
        return mono[0][0], (c / t.d.const_value() > 0)
    return None


def validated_signs(sx: SX, cls: str):
    """{field atom ('self._C__x') or param: 'pos'|'nonneg'} proven on *every* completing path of
    cls.__init__ on which the parameter is not None.  Also returns the param -> field map."""
    from . import sx as sxm
    saved = set(sxm.POSITIVE_ATOMS)
    sxm.POSITIVE_ATOMS.clear()       # facts are derived without presupposing any of them
    try:
        m, outs = ctor_paths(sx, cls)
    finally:
        sxm.POSITIVE_ATOMS.update(saved)
    done = [o for o in outs if o.kind in ('fall', 'return')]
    param_field = {}
    for o in done:
        for e in o.state.effects:
            if e[0] == 'store' and e[1] == 'self':
                v = e[3]
                t = getattr(v, 'term', None)
                if t is not None:
                    sa = _single_atom(t)
                    if sa and sa[1]:
                        param_field.setdefault(sa[0], set()).add(f'self.{e[2]}')
    facts = {}
    params = set(param_field)
    for p in params:
        kinds = []
        for o in done:
            isnone = any(g.kind == 'isnone' and g.key == (p,) and g.pol for g in o.state.guards)
            if isnone:
                continue
            k = None
            for g in o.state.guards:
                if g.kind != 'cmp':
                    continue
                sa = _single_atom(g.rat)
                if not sa or sa[0] != p:
                    continue
                rel, positive_coeff = g.key[0], sa[1]
                # guard is  (+-p) rel 0
                if not positive_coeff and rel == '<':
                    k = 'pos'
                elif not positive_coeff and rel == '<=' and k is None:
                    k = 'nonneg'
            kinds.append(k)
        if kinds and all(k == 'pos' for k in kinds):
            facts[p] = 'pos'
        elif kinds and all(k in ('pos', 'nonneg') for k in kinds):
            facts[p] = 'nonneg'
    return facts, param_field


def positive_atoms(sx: SX, cls: str):
    facts, pf = validated_signs(sx, cls)
    out = set()
    for p, k in facts.items():
        if k == 'pos':
            out.add(p)
            out |= pf.get(p, set())
    return out
