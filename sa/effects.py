"""E5 - effect summaries: which element attributes a method reads and writes.

Summaries are computed with the evaluator itself: the method is evaluated for every concrete class
that implements it with `self` exact; every atom that reaches a stored value, a guard, a call
argument or a return value is a read, every store is a write.  Attribute names are the public
vocabulary of rotating objects (angular_position ... pwm); reads through `drives`/`driven_by`
are reads of a *neighbour* element."""
from __future__ import annotations

import ast
import re

from .loops import reduction_loop
from .spec.variables import VARIABLE_KINDS
from .sx import SX, Ov, Outcome, CannotDecide, Bsym, Unk, Seq
from .solver_ir import value_atoms, atoms_deep

ATTRS = ('angular_position', 'angular_speed', 'angular_acceleration', 'torque', 'driving_torque', 'load_torque',
         'pwm', 'electric_current', 'tangential_force', 'bending_stress', 'contact_stress')
_ATTR_RE = re.compile(r'\.(' + '|'.join(ATTRS) + r')(?![A-Za-z_])')


def attr_reads_of_atom(atom: str):
    """[(owner text, attr)] for every vocabulary attribute mentioned in an atom name"""
    out = []
    for m in _ATTR_RE.finditer(atom):
        owner = atom[:m.start()]
        # owner = the access path right before the attribute: back to a separator at bracket depth 0
        depth = 0
        k = 0
        for j in range(len(owner) - 1, -1, -1):
            ch = owner[j]
            if ch in ')]':
                depth += 1
            elif ch in '([':
                if depth == 0:
                    k = j + 1
                    break
                depth -= 1
            elif depth == 0 and ch in ',=: ':
                k = j + 1
                break
        out.append((owner[k:], m.group(1)))
    return out


class Summary:
    def __init__(self):
        self.reads = set()      # (who, attr): who in {'self', 'neighbour', 'any', 'elem0'}
        self.writes = set()     # (who, attr)
        self.reads_time = False
        self.calls = set()
        self.raises = set()
        self.classes = []

    def __repr__(self):
        return f'Summary(reads={sorted(self.reads)}, writes={sorted(self.writes)}, time={self.reads_time})'


def _who(owner: str):
    if owner in ('self', 'E'):
        return 'self'
    if owner.endswith('.drives') or owner.endswith('.driven_by'):
        return 'neighbour'
    if owner.endswith('elements[0]'):
        return 'elem0'
    return 'any'


def summarise_method(model, cls_base: str, meth: str, sx: SX = None) -> Summary:
    """union over the concrete subclasses of cls_base that have `meth`"""
    s = Summary()
    sx = sx or SX(model)
    if sx.loop_handler is None:
        sx.loop_handler = reduction_loop
    sx.variable_kinds = VARIABLE_KINDS
    sx.opaque_calls |= {'worm_gear_and_wheel_maximum_helix_angle_function', 'worm_wheel_lewis_factor_function'}
    classes = [c for c in model.subclasses(cls_base) if not model.is_abstract_class(c) and model.find_member(c, meth)]
    for c in classes:
        m = model.find_member(c, meth)
        if m.kind != 'method':
            continue
        try:
            outs = sx.run(m.node, m.module, c)
        except CannotDecide as e:
            raise CannotDecide(f'effect summary of {c}.{meth}: {e}')
        s.classes.append(c)
        for o in outs:
            atoms = set()
            for g in o.state.guards:
                if g.kind == 'cmp':
                    atoms |= atoms_deep(sx.ctx, g.rat)
                else:
                    for k in g.key:
                        if isinstance(k, str):
                            atoms.add(k)
            if o.kind == 'raise':
                s.raises.add(o.value)
            if o.kind == 'return' and o.value is not None:
                atoms |= value_atoms(sx.ctx, o.value)
            for e in o.state.effects:
                if e[0] == 'store':
                    who = 'self' if e[1] == 'self' else _who(e[1])
                    name = e[2]
                    pub = sx.canon_field(c, name) if e[1] == 'self' else name
                    if pub in ATTRS:
                        s.writes.add((who, pub))
                    atoms |= value_atoms(sx.ctx, e[3])
                elif e[0] in ('call', 'opaque-call'):
                    s.calls.add(f'{e[1]}.{e[2]}' if e[0] == 'call' else str(e[1]))
                    args = list(e[3] if e[0] == 'call' else e[2]) + list((e[4] if e[0] == 'call' else e[3]).values())
                    for a in args:
                        atoms |= value_atoms(sx.ctx, a)
                    if e[0] == 'call':
                        atoms.add(e[1])
                elif e[0] in ('append', 'list-append', 'setitem'):
                    for a in e[1:]:
                        if hasattr(a, '__dataclass_fields__'):
                            atoms |= value_atoms(sx.ctx, a)
                        elif isinstance(a, (list, tuple)):
                            for x in a:
                                if hasattr(x, '__dataclass_fields__'):
                                    atoms |= value_atoms(sx.ctx, x)
            for a in atoms:
                if '.time[' in a or a.endswith('.time'):
                    s.reads_time = True
                for owner, attr in attr_reads_of_atom(a):
                    s.reads.add((_who(owner), attr))
    return s
