"""E0 - source model of gearpy: modules, classes (C3 linearisation), members, name mangling,
module-level functions and constants, annotations.  Pure `ast`; never imports gearpy."""
from __future__ import annotations

import ast
from dataclasses import dataclass, field

from .core import AnalysisError

QUANTITY_BASE = 'UnitBase'


@dataclass
class Member:
    name: str
    kind: str            # 'method' | 'property' | 'setter' | 'staticmethod'
    node: ast.FunctionDef
    cls: str
    module: str
    abstract: bool = False

    @property
    def qualname(self):
        return f'{self.cls}.{self.name}' + ('[setter]' if self.kind == 'setter' else '')

    @property
    def loc(self):
        return f'{self.module}:{self.node.lineno}'


@dataclass
class ClassInfo:
    name: str
    module: str
    node: ast.ClassDef
    bases: list
    members: dict = field(default_factory=dict)      # name -> Member (getter/method)
    setters: dict = field(default_factory=dict)      # name -> Member
    class_attrs: dict = field(default_factory=dict)  # name -> ast value

    def all_members(self):
        return list(self.members.values()) + list(self.setters.values())


def strip_docstring(body):
    if body and isinstance(body[0], ast.Expr) and isinstance(body[0].value, ast.Constant) \
            and isinstance(body[0].value.value, str):
        return body[1:]
    return body


class Model:
    def __init__(self, sources: dict):
        self.sources = {p: s for p, s in sources.items() if p.endswith('.py')}
        self.data = {p: s for p, s in sources.items() if not p.endswith('.py')}
        self.trees = {}
        for p, s in self.sources.items():
            try:
                self.trees[p] = ast.parse(s, filename=p)
            except SyntaxError as e:
                raise AnalysisError(f'{p} does not parse: {e}')
        self.classes: dict[str, ClassInfo] = {}
        self.functions: dict[str, tuple] = {}      # name -> (module, node)  (module-level)
        self.module_consts: dict[str, dict] = {}   # module -> name -> ast value
        self.imports: dict[str, dict] = {}         # module -> local name -> dotted origin
        for p, t in self.trees.items():
            self.module_consts[p] = {}
            self.imports[p] = {}
            for n in t.body:
                if isinstance(n, ast.ClassDef):
                    if n.name in self.classes:
                        raise AnalysisError(f'class name {n.name} defined twice '
                                            f'({self.classes[n.name].module}, {p})')
                    ci = ClassInfo(n.name, p, n, [ast.unparse(b) for b in n.bases])
                    for b in n.body:
                        if isinstance(b, ast.FunctionDef):
                            decs = [ast.unparse(d) for d in b.decorator_list]
                            abstract = 'abstractmethod' in decs
                            if any(d.endswith('.setter') for d in decs):
                                ci.setters[b.name] = Member(b.name, 'setter', b, n.name, p, abstract)
                            elif 'property' in decs:
                                ci.members[b.name] = Member(b.name, 'property', b, n.name, p, abstract)
                            elif 'staticmethod' in decs:
                                ci.members[b.name] = Member(b.name, 'staticmethod', b, n.name, p, abstract)
                            else:
                                ci.members[b.name] = Member(b.name, 'method', b, n.name, p, abstract)
                        elif isinstance(b, ast.Assign) and isinstance(b.targets[0], ast.Name):
                            ci.class_attrs[b.targets[0].id] = b.value
                    self.classes[n.name] = ci
                elif isinstance(n, ast.FunctionDef):
                    self.functions[n.name] = (p, n)
                elif isinstance(n, ast.Assign) and len(n.targets) == 1 and isinstance(n.targets[0], ast.Name):
                    self.module_consts[p][n.targets[0].id] = n.value
                elif isinstance(n, ast.ImportFrom):
                    for a in n.names:
                        self.imports[p][a.asname or a.name] = f'{"." * n.level}{n.module or ""}.{a.name}'
                elif isinstance(n, ast.Import):
                    for a in n.names:
                        self.imports[p][a.asname or a.name.split('.')[0]] = a.name
        self._mro = {}

    # ---- class hierarchy
    def mro(self, name):
        if name in self._mro:
            return self._mro[name]
        if name not in self.classes:
            return [name]
        out = [name]
        for b in self.classes[name].bases:   # single inheritance everywhere in gearpy (plus ABC)
            for x in self.mro(b):
                if x not in out:
                    out.append(x)
        self._mro[name] = out
        return out

    def is_subclass(self, a, b):
        return b in self.mro(a)

    def subclasses(self, name, strict=False):
        return [c for c in self.classes if self.is_subclass(c, name) and not (strict and c == name)]

    def is_quantity(self, name):
        return name in self.classes and self.is_subclass(name, QUANTITY_BASE) and name != QUANTITY_BASE

    def quantity_kinds(self):
        return [c for c in self.classes if self.is_quantity(c)]

    def is_abstract_class(self, name):
        """a class with an abstract member not overridden by a concrete one along its MRO"""
        seen = set()
        for c in self.mro(name):
            ci = self.classes.get(c)
            if not ci:
                continue
            for m in ci.all_members():
                k = (m.name, m.kind == 'setter')
                if k in seen:
                    continue
                seen.add(k)
                if m.abstract:
                    return True
        return False

    def concrete_classes(self, base):
        return [c for c in self.subclasses(base) if not self.is_abstract_class(c)]

    def find_member(self, cls, name, start_after=None):
        mro = self.mro(cls)
        if start_after is not None:
            if start_after not in mro:
                return None
            mro = mro[mro.index(start_after) + 1:]
        for c in mro:
            ci = self.classes.get(c)
            if ci and name in ci.members:
                return ci.members[name]
        return None

    def find_setter(self, cls, name, start_after=None):
        mro = self.mro(cls)
        if start_after is not None:
            if start_after not in mro:
                return None
            mro = mro[mro.index(start_after) + 1:]
        for c in mro:
            ci = self.classes.get(c)
            if ci and name in ci.setters:
                return ci.setters[name]
        return None

    def find_class_attr(self, cls, name):
        for c in self.mro(cls):
            ci = self.classes.get(c)
            if ci and name in ci.class_attrs:
                return c, ci.class_attrs[name]
        return None, None

    @staticmethod
    def mangle(cls, attr):
        if attr.startswith('__') and not attr.endswith('__'):
            return f'_{cls.lstrip("_")}{attr}'
        return attr

    def function(self, name):
        if name not in self.functions:
            raise AnalysisError(f'module-level function {name} not found (anchor vanished)')
        return self.functions[name]

    def cls(self, name) -> ClassInfo:
        if name not in self.classes:
            raise AnalysisError(f'class {name} not found (anchor vanished)')
        return self.classes[name]

    def member(self, cls, name) -> Member:
        m = self.find_member(cls, name)
        if m is None:
            raise AnalysisError(f'{cls}.{name} not found (anchor vanished)')
        return m

    def const(self, module, name):
        v = self.module_consts.get(module, {}).get(name)
        return v

    def resolve_const(self, module, name):
        """module constant, following `from x import NAME` one level through the package"""
        v = self.const(module, name)
        if v is not None:
            return module, v
        origin = self.imports.get(module, {}).get(name)
        if origin:
            for p in self.module_consts:
                if name in self.module_consts[p] and p != module:
                    return p, self.module_consts[p][name]
        return None, None

    def stats(self):
        nfun = sum(1 for t in self.trees.values() for n in ast.walk(t) if isinstance(n, ast.FunctionDef))
        return {'modules': len(self.trees), 'classes': len(self.classes), 'functions': nfun}


def walk_no_nested(node):
    """ast.walk that does not descend into nested function/class definitions or lambdas"""
    todo = list(ast.iter_child_nodes(node))
    while todo:
        n = todo.pop()
        yield n
        if isinstance(n, (ast.FunctionDef, ast.AsyncFunctionDef, ast.ClassDef, ast.Lambda)):
            continue
        todo.extend(ast.iter_child_nodes(n))
