"""E3(a) - unit tables extracted from the `__UNITS` dict literals of gearpy/units/units.py,
constant-folded exactly over Q[pi]."""
from __future__ import annotations

import ast
from fractions import Fraction

from .algebra import Rat, num
from .core import AnalysisError
from .srcmodel import Model

PI = Rat.atom('pi')


def const_fold(node, consts=None, _depth=0) -> Rat:
    """exact value of a constant expression (numbers, `pi`, + - * / **int, names of module-level constants in `consts`)"""
    if isinstance(node, ast.Constant) and isinstance(node.value, (int, float)) and not isinstance(node.value, bool):
        return num(node.value)
    if isinstance(node, ast.Name) and node.id == 'pi':
        return PI
    if isinstance(node, ast.Name) and consts and node.id in consts and _depth < 8:
        return const_fold(consts[node.id], consts, _depth + 1)
    if isinstance(node, ast.Attribute) and node.attr == 'pi':
        return PI
    if isinstance(node, ast.UnaryOp) and isinstance(node.op, ast.USub):
        return -const_fold(node.operand, consts, _depth)
    if isinstance(node, ast.UnaryOp) and isinstance(node.op, ast.UAdd):
        return const_fold(node.operand, consts, _depth)
    if isinstance(node, ast.BinOp):
        l, r = const_fold(node.left, consts, _depth), const_fold(node.right, consts, _depth)
        if isinstance(node.op, ast.Mult):
            return l * r
        if isinstance(node.op, ast.Div):
            if r.is_zero():
                raise AnalysisError('division by zero in a constant expression')
            return l / r
        if isinstance(node.op, ast.Add):
            return l + r
        if isinstance(node.op, ast.Sub):
            return l - r
        if isinstance(node.op, ast.Pow) and r.is_const() and r.const_value().denominator == 1:
            return l ** int(r.const_value())
    raise AnalysisError(f'not a foldable constant expression: {ast.unparse(node)}')


class UnitTables:
    def __init__(self, model: Model):
        self.model = model
        self.tables = {}      # class that defines __UNITS -> {unit: Rat}
        self.nodes = {}       # class -> dict node
        self.duplicates = []  # (kind, unit, line) of keys written more than once in a table literal
        for k in model.quantity_kinds():
            ci = model.classes[k]
            if '__UNITS' in ci.class_attrs:
                d = ci.class_attrs['__UNITS']
                if isinstance(d, ast.Call) and isinstance(d.func, ast.Name) and d.func.id == 'dict' and len(d.args) == 1 and not d.keywords \
                        and isinstance(d.args[0], ast.Call) and isinstance(d.args[0].func, ast.Name) and d.args[0].func.id == 'zip' \
                        and len(d.args[0].args) == 2:
                    # `dict(zip(<symbols>, <values>))` over two class-level (or literal) tuples: the same table, spelled in two columns
                    cols = []
                    for a in d.args[0].args:
                        if isinstance(a, ast.Name) and a.id in ci.class_attrs:
                            a = ci.class_attrs[a.id]
                        cols.append(a)
                    if all(isinstance(c, (ast.Tuple, ast.List)) for c in cols) and len(cols[0].elts) == len(cols[1].elts):
                        d = ast.copy_location(ast.Dict(keys=list(cols[0].elts), values=list(cols[1].elts)), d)
                if not isinstance(d, ast.Dict):
                    raise AnalysisError(f'{k}.__UNITS is not a dict literal')
                tab = {}
                for kk, v in zip(d.keys, d.values):
                    if not (isinstance(kk, ast.Constant) and isinstance(kk.value, str)):
                        raise AnalysisError(f'{k}.__UNITS has a non-literal key')
                    if kk.value in tab:
                        # Python keeps the LAST value of a repeated key: the table the program runs with has that one
                        self.duplicates.append((k, kk.value, kk.lineno))
                    tab[kk.value] = const_fold(v, model.module_consts.get(ci.module, {}))
                self.tables[k] = tab
                self.nodes[k] = d

    def family(self, kind):
        """the class along kind's MRO whose __UNITS table the kind uses"""
        for c in self.model.mro(kind):
            if c in self.tables:
                return c
        return None

    def table_of(self, kind):
        f = self.family(kind)
        if f is None:
            raise AnalysisError(f'no __UNITS table for kind {kind}')
        return self.tables[f]

    def factor(self, kind, unit) -> Rat:
        t = self.table_of(kind)
        if unit not in t:
            raise AnalysisError(f'unit {unit!r} is not in the table of {kind}')
        return t[unit]

    def kinds_with_unit(self, unit):
        return [k for k, t in self.tables.items() if unit in t]


def rat_to_float(r: Rat) -> float:
    """numeric value of a Q[pi] constant (for reporting only)"""
    from math import pi

    def pv(p):
        s = 0.0
        for mono, c in p.t.items():
            v = float(c)
            for a, e in mono:
                if a != 'pi':
                    raise ValueError(a)
                v *= pi ** e
            s += v
        return s
    return pv(r.n) / pv(r.d)
