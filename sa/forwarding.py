"""Sibling rule for gearpy's forwarding idiom: 63 setters `super(C, type(self)).prop.fset(self, v)` and
the matching getters `return super().prop` are clones of one another - each must forward to the
property *of its own name*, from its own class, with its own parameter."""
from __future__ import annotations

import ast

from .srcmodel import strip_docstring


def forwarding_problems(model, attrs=None):
    """[(member, what)] for forwarding getters/setters that do not forward to their own property"""
    out = []
    n = 0
    for cname, ci in model.classes.items():
        for mem in ci.all_members():
            if mem.kind not in ('property', 'setter'):
                continue
            if attrs is not None and mem.name not in attrs:
                continue
            body = strip_docstring(mem.node.body)
            if len(body) != 1:
                continue
            s = body[0]
            if mem.kind == 'property' and isinstance(s, ast.Return) and isinstance(s.value, ast.Attribute) \
                    and isinstance(s.value.value, ast.Call) and isinstance(s.value.value.func, ast.Name) \
                    and s.value.value.func.id == 'super':
                n += 1
                if s.value.attr != mem.name:
                    out.append((mem, f'the getter of {mem.name} returns the parent\'s `{s.value.attr}`'))
            if mem.kind == 'setter' and isinstance(s, ast.Expr) and isinstance(s.value, ast.Call) \
                    and isinstance(s.value.func, ast.Attribute) and s.value.func.attr == 'fset':
                n += 1
                f = s.value.func.value          # super(C, type(self)).prop
                param = mem.node.args.args[1].arg if len(mem.node.args.args) > 1 else None
                if not (isinstance(f, ast.Attribute) and isinstance(f.value, ast.Call) and isinstance(f.value.func, ast.Name)
                        and f.value.func.id == 'super'):
                    out.append((mem, f'the setter of {mem.name} forwards through `{ast.unparse(f)[:50]}`'))
                    continue
                if f.attr != mem.name:
                    out.append((mem, f'the setter of {mem.name} writes the parent\'s `{f.attr}` (assigning {mem.name} changes another attribute)'))
                sargs = f.value.args
                if len(sargs) == 2 and ast.unparse(sargs[0]) != cname:
                    out.append((mem, f'the setter of {mem.name} starts the lookup above `{ast.unparse(sargs[0])}` instead of above {cname}'))
                cargs = s.value.args
                if len(cargs) != 2 or ast.unparse(cargs[0]) != 'self' or ast.unparse(cargs[1]) != param:
                    out.append((mem, f'the setter of {mem.name} stores `{ast.unparse(cargs[1]) if len(cargs) > 1 else None}` instead of its argument'))
    return out, n


def check_forwarding(model, rep, rule, attrs):
    probs, n = forwarding_problems(model, attrs)
    rep.inspect(n)
    for mem, what in probs:
        rep.violation(rule, mem.qualname, what, mem.loc)
    if not probs:
        rep.holds(rule, f'{len(attrs)} attribute(s)', f'{n} forwarding getters/setters forward to their own property')


def check_setter_stores(model, rep, rule, attrs):
    """every accepting path of the setter of `attr` (followed through the forwarding chain by the evaluator) stores
    exactly its argument in the field the getter of `attr` returns - a setter that validates and then drops the
    value, or stores it under another attribute, leaves every reader with a stale value"""
    from .sx import SX, Ov, CannotDecide, parse_annotation
    sx = SX(model)
    n = 0
    for cls in sorted(c for c in model.subclasses('RotatingObject') if not model.is_abstract_class(c)):
        for attr in attrs:
            st = model.find_setter(cls, attr)
            if st is None:
                continue
            par = st.node.args.args[1]
            val = sx.typed_atom('ARG', parse_annotation(par.annotation, model), 'ARG')
            cons = f'{cls}.{attr}[setter]'
            try:
                outs = sx.run(st.node, st.module, st.cls, Ov('self', cls, True), {par.arg: val})
                done = [o for o in outs if o.kind in ('fall', 'return')]
            except CannotDecide:
                done = None
            n += 1
            if not done:
                # evaluator does not follow this setter (signature inspection, class-valued argument): the final
                # statement of the defining setter must be the store of the parameter
                base = st
                import ast as _ast
                last = strip_docstring(base.node.body)[-1]
                for _ in range(8):
                    if not (isinstance(last, _ast.Expr) and isinstance(last.value, _ast.Call) and isinstance(last.value.func, _ast.Attribute)
                            and last.value.func.attr == 'fset'):
                        break
                    up = model.find_setter(cls, attr, start_after=base.cls)
                    if up is None:
                        break
                    base, last = up, strip_docstring(up.node.body)[-1]
                ok = isinstance(last, _ast.Assign) and isinstance(last.targets[0], _ast.Attribute) \
                    and last.targets[0].attr.strip('_') == attr and isinstance(last.value, _ast.Name)
                rep.decide(ok, rule, cons, f'the setter does not end by storing its argument in its own field (`{_ast.unparse(last)[:60]}`)', loc=st.loc)
                continue
            bad = ''
            for o in done:
                stores = [e for e in o.state.effects if e[0] == 'store' and e[1] == 'self']
                own = [e for e in stores if sx.canon_field(cls, e[2]) == attr or e[2].strip('_').endswith(attr)]
                if len(own) != 1 or len(stores) != 1:
                    bad = f'an accepting path stores {[e[2] for e in stores]} (exactly one store of its own field is specified)'
                elif sx.show(own[0][3]) != sx.show(val):
                    bad = f'the value stored is `{sx.show(own[0][3])[:60]}`, not the argument'
            rep.decide(not bad, rule, cons, bad, loc=st.loc)
    rep.inspect(n)


def check_trig(model, rep, rule):
    """the formulas take sines, cosines and tangents through AngularPosition/Angle.sin|cos|tan, which the
    evaluator models natively - so the methods themselves are decided here: with the default frequency each returns
    the named function of the SI magnitude (radians), whatever unit the angle is expressed in"""
    import ast as _ast
    from .algebra import Rat
    from .sx import SX, Q, U, N, Dyn, Outcome, CannotDecide
    from . import sx as sxm
    sx = SX(model)
    sxm.POSITIVE_ATOMS.clear()
    S = Rat.atom('S')
    for cls in ('AngularPosition', 'Angle'):
        for fn in ('sin', 'cos', 'tan'):
            m = model.find_member(cls, fn)
            cons = f'{cls}.{fn}'
            if m is None:
                rep.violation(rule, cons, 'method missing')
                continue
            try:
                args = {}
                pos = m.node.args.args[1:]
                defaults = m.node.args.defaults
                frame = {'module': m.module, 'cls': cls, 'fn': m.node, 'depth': 0}
                for a, d in zip(pos[len(pos) - len(defaults):], defaults):
                    args[a.arg] = sx.eval1(d, sxm.State(env={}), frame)
                outs = sx.run(m.node, m.module, m.cls, Q(cls, S, U(sym='u')), args)
            except CannotDecide as e:
                rep.cannot(rule, cons, str(e), m.loc)
                continue
            rets = [o for o in outs if o.kind == 'return']
            want = sx.ctx.call(fn, S)
            ok = len(rets) == 1 and len(outs) == 1 and isinstance(rets[0].value, (N, Dyn)) and sx.ctx.eq(rets[0].value.term, want)
            rep.decide(ok, rule, cons, f'with the default frequency the method returns `{sx.show(rets[0].value)[:80] if rets else None}`, '
                       f'specified {fn}(angle in radians)', loc=m.loc)
            rep.inspect()
