"""Sibling rule for gearpy's forwarding idiom: 63 setters `super(C, type(self)).prop.fset(self, v)` and
the matching getters `return super().prop` are clones of one another - each must forward to the
property *of its own name*, from its own class, with its own parameter."""
from __future__ import annotations

import ast

from .srcmodel import strip_docstring


def forwarding_problems(model, attrs=None):
    """[(member, what)] for forwarding getters/setters that do not forward to their own property"""
    out = []
    n = 0
    for cname, ci in model.classes.items():
        for mem in ci.all_members():
            if mem.kind not in ('property', 'setter'):
                continue
            if attrs is not None and mem.name not in attrs:
                continue
            body = strip_docstring(mem.node.body)
            if len(body) != 1:
                continue
            s = body[0]
            if mem.kind == 'property' and isinstance(s, ast.Return) and isinstance(s.value, ast.Attribute) \
                    and isinstance(s.value.value, ast.Call) and isinstance(s.value.value.func, ast.Name) \
                    and s.value.value.func.id == 'super':
                n += 1
                if s.value.attr != mem.name:
                    out.append((mem, f'the getter of {mem.name} returns the parent\'s `{s.value.attr}`'))
            if mem.kind == 'setter' and isinstance(s, ast.Expr) and isinstance(s.value, ast.Call) \
                    and isinstance(s.value.func, ast.Attribute) and s.value.func.attr == 'fset':
                n += 1
                f = s.value.func.value          # super(C, type(self)).prop
                param = mem.node.args.args[1].arg if len(mem.node.args.args) > 1 else None
                if not (isinstance(f, ast.Attribute) and isinstance(f.value, ast.Call) and isinstance(f.value.func, ast.Name)
                        and f.value.func.id == 'super'):
                    out.append((mem, f'the setter of {mem.name} forwards through `{ast.unparse(f)[:50]}`'))
                    continue
                if f.attr != mem.name:
                    out.append((mem, f'the setter of {mem.name} writes the parent\'s `{f.attr}` (assigning {mem.name} changes another attribute)'))
                sargs = f.value.args
                if len(sargs) == 2 and ast.unparse(sargs[0]) != cname:
                    out.append((mem, f'the setter of {mem.name} starts the lookup above `{ast.unparse(sargs[0])}` instead of above {cname}'))
                cargs = s.value.args
                if len(cargs) != 2 or ast.unparse(cargs[0]) != 'self' or ast.unparse(cargs[1]) != param:
                    out.append((mem, f'the setter of {mem.name} stores `{ast.unparse(cargs[1]) if len(cargs) > 1 else None}` instead of its argument'))
    return out, n


def check_forwarding(model, rep, rule, attrs):
    probs, n = forwarding_problems(model, attrs)
    rep.inspect(n)
    for mem, what in probs:
        rep.violation(rule, mem.qualname, what, mem.loc)
    if not probs:
        rep.holds(rule, f'{len(attrs)} attribute(s)', f'{n} forwarding getters/setters forward to their own property')
