"""E2 (part 1) - canonical rational functions over named atoms.

Polynomials are {monomial -> Fraction}; a monomial is a sorted tuple of (atom, exponent).
Terms are numerator/denominator pairs; equality is decided by cross-multiplication
(a/b == c/d  <=>  a*d - c*b is the zero polynomial): a normal-form computation, no solver.
Opaque functions (sin, cos, sqrt, abs, min, max, atan, table lookups, user callables) become
*function atoms* registered by semantic equality of their canonical arguments.  Rewrites:
sqrt(x)**2 -> x, tan -> sin/cos, abs(-x) == abs(x), abs(x)**2 -> x**2."""
from __future__ import annotations

from fractions import Fraction


class Poly:
    __slots__ = ('t',)

    def __init__(self, t=None):
        self.t = {k: v for k, v in (t or {}).items() if v != 0}

    @staticmethod
    def const(c):
        return Poly({(): Fraction(c)})

    @staticmethod
    def atom(a):
        return Poly({((a, 1),): Fraction(1)})

    def __add__(s, o):
        t = dict(s.t)
        for k, v in o.t.items():
            t[k] = t.get(k, 0) + v
        return Poly(t)

    def __neg__(s):
        return Poly({k: -v for k, v in s.t.items()})

    def __sub__(s, o):
        return s + (-o)

    def __mul__(s, o):
        t = {}
        for k1, v1 in s.t.items():
            for k2, v2 in o.t.items():
                if not k1:
                    k = k2
                elif not k2:
                    k = k1
                else:
                    d = dict(k1)
                    for a, e in k2:
                        d[a] = d.get(a, 0) + e
                    k = tuple(sorted((a, e) for a, e in d.items() if e))
                t[k] = t.get(k, 0) + v1 * v2
        return Poly(t)

    def is_zero(s):
        return not s.t

    def is_const(s):
        return all(k == () for k in s.t)

    def const_value(s):
        return s.t.get((), Fraction(0))

    def atoms(s):
        return {a for k in s.t for a, _ in k}

    def __repr__(s):
        def mono(k, v):
            parts = [f'{a}^{e}' if e != 1 else a for a, e in k]
            c = str(v)
            if not parts:
                return c
            if v == 1:
                return '*'.join(parts)
            if v == -1:
                return '-' + '*'.join(parts)
            return c + '*' + '*'.join(parts)
        return ' + '.join(mono(k, v) for k, v in sorted(s.t.items(), key=lambda kv: str(kv[0]))) or '0'


ONE = Poly.const(1)
ZERO = Poly.const(0)


class Rat:
    __slots__ = ('n', 'd')

    def __init__(s, n, d=None):
        s.n = n
        s.d = d if d is not None else ONE
        # cheap normalisation: constant denominators are folded into the numerator
        if s.d.is_const() and s.d.t:
            c = s.d.const_value()
            if c != 1:
                s.n = Poly({k: v / c for k, v in s.n.t.items()})
                s.d = ONE

    @staticmethod
    def const(c):
        return Rat(Poly.const(c))

    @staticmethod
    def atom(a):
        return Rat(Poly.atom(a))

    def __add__(s, o):
        if s.d is o.d or (s.d.t == o.d.t):
            return Rat(s.n + o.n, s.d)
        return Rat(s.n * o.d + o.n * s.d, s.d * o.d)

    def __sub__(s, o):
        return s + (-o)

    def __mul__(s, o):
        return Rat(s.n * o.n, s.d * o.d)

    def __truediv__(s, o):
        return Rat(s.n * o.d, s.d * o.n)

    def __neg__(s):
        return Rat(-s.n, s.d)

    def __pow__(s, k: int):
        if k < 0:
            return Rat(ONE) / (s ** (-k))
        out = Rat(ONE)
        for _ in range(k):
            out = out * s
        return out

    def eq(s, o):
        return (s.n * o.d - o.n * s.d).is_zero()

    def is_zero(s):
        return s.n.is_zero()

    def is_const(s):
        return s.n.is_const() and s.d.is_const()

    def const_value(s):
        return s.n.const_value() / s.d.const_value()

    def atoms(s):
        return s.n.atoms() | s.d.atoms()

    def __repr__(s):
        if s.d.is_const() and s.d.const_value() == 1:
            return f'{s.n}'
        return f'({s.n})/({s.d})'


class Ctx:
    """registry of function atoms; one Ctx per comparison universe (code term and spec term must
    be built in the same Ctx so that equal arguments give the same atom)"""

    def __init__(self):
        self.fun = {}        # fname -> list of (args tuple of Rat, atomname)
        self.defs = {}       # atomname -> (fname, args)

    def fatom(self, f, args) -> str:
        if isinstance(args, Rat):
            args = (args,)
        args = tuple(args)
        lst = self.fun.setdefault(f, [])
        for a, name in lst:
            if len(a) == len(args) and all(x.eq(y) for x, y in zip(a, args)):
                return name
        name = f'{f}#{len(lst)}'
        lst.append((args, name))
        self.defs[name] = (f, args)
        return name

    def call(self, f, args) -> Rat:
        """canonical application of an opaque function"""
        if isinstance(args, Rat):
            args = (args,)
        args = tuple(args)
        if f == 'tan':
            return self.call('sin', args) / self.call('cos', args)
        if f in ('fabs',):
            f = 'abs'
        if f == 'abs':
            a = args[0]
            if a.is_const():
                v = a.const_value()
                return Rat.const(abs(v))
            # abs(-x) == abs(x): pick the representative already registered, if any
            for cand in (a, -a):
                for known, name in self.fun.get('abs', []):
                    if known[0].eq(cand):
                        return Rat.atom(name)
            return Rat.atom(self.fatom('abs', (a,)))
        if f in ('min', 'max'):
            args = tuple(sorted(args, key=repr))
        if f == 'sqrt' and args[0].is_const():
            v = args[0].const_value()
            from math import isqrt
            if v >= 0 and v.denominator == 1 and isqrt(v.numerator) ** 2 == v.numerator:
                return Rat.const(isqrt(v.numerator))
        if f == 'float' or f == 'int':
            return args[0]
        return Rat.atom(self.fatom(f, args))

    # -- rewriting
    def _reduce_poly(self, p: Poly):
        """apply sqrt#k^2 -> arg and abs#k^2 -> arg^2 inside one polynomial; returns a Rat"""
        out = Rat(ZERO)
        changed = False
        for k, v in p.t.items():
            term = Rat(Poly.const(v))
            for a, e in k:
                f = a.split('#')[0]
                if f == 'sqrt' and e >= 2 and a in self.defs:
                    arg = self.defs[a][1][0]
                    term = term * (arg ** (e // 2))
                    if e % 2:
                        term = term * Rat.atom(a)
                    changed = True
                elif f == 'abs' and e >= 2 and a in self.defs:
                    arg = self.defs[a][1][0]
                    term = term * (arg ** (e - e % 2))
                    if e % 2:
                        term = term * Rat.atom(a)
                    changed = True
                else:
                    term = term * Rat(Poly({((a, e),): Fraction(1)}))
            out = out + term
        return out, changed

    def reduce(self, r: Rat) -> Rat:
        for _ in range(8):
            n, c1 = self._reduce_poly(r.n)
            d, c2 = self._reduce_poly(r.d)
            if not (c1 or c2):
                return r
            r = n / d
        return r

    def eq(self, a: Rat, b: Rat) -> bool:
        return self.reduce(a - b).is_zero()

    def subst(self, term: Rat, mapping: dict) -> Rat:
        """substitute atoms by Rats (mapping atom-name -> Rat), re-registering function atoms whose
        arguments change"""
        cache = {}

        def atom_value(a):
            if a in cache:
                return cache[a]
            if a in mapping:
                v = mapping[a]
            elif a in self.defs:
                f, args = self.defs[a]
                nargs = tuple(self.subst(x, mapping) for x in args)
                if all(x.eq(y) for x, y in zip(args, nargs)):
                    v = Rat.atom(a)
                else:
                    v = self.call(f, nargs)
            else:
                v = Rat.atom(a)
            cache[a] = v
            return v

        def sp(p: Poly) -> Rat:
            out = Rat(ZERO)
            for mono, coef in p.t.items():
                t = Rat(Poly.const(coef))
                for a, e in mono:
                    t = t * (atom_value(a) ** e)
                out = out + t
            return out
        return self.reduce(sp(term.n) / sp(term.d))

    def show(self, r: Rat, depth=0) -> str:
        """human-readable rendering with function atoms expanded"""
        s = repr(r)
        if depth > 6:
            return s
        for name in sorted(self.defs, key=len, reverse=True):
            if name in s:
                f, args = self.defs[name]
                s = s.replace(name, f'{f}({", ".join(self.show(a, depth + 1) for a in args)})')
        return s


def num(x) -> Rat:
    """exact rational of a Python numeric literal value (decimal text of the float)"""
    if isinstance(x, bool):
        raise TypeError('bool is not a number here')
    if isinstance(x, int):
        return Rat.const(Fraction(x))
    if isinstance(x, float):
        return Rat.const(Fraction(repr(x)))
    if isinstance(x, Fraction):
        return Rat.const(x)
    raise TypeError(type(x))
