"""Matching of extracted gated terms against specification cases.

A *case* is (guards, values): a conjunction of canonical guards and a dict key -> canonical value.
Code paths and spec cases are matched by **guard compatibility, never by position**: whenever a
code path and a spec case can hold together (no contradictory pair of guards after expanding
absolute values into their two linear cases), the path must produce the spec's value; and every
spec case must be realised by at least one path."""
from __future__ import annotations

import ast

from .algebra import Poly, Rat
from . import sx as sxm
from .sx import G, N, Q, Dyn, SX, State, make_cmp, CannotDecide


def _split_abs(g: G, ctx):
    """for a cmp guard linear in exactly one abs atom with a sign-definite coefficient, return
    ('and'|'or', [G, G]); else None"""
    if g.kind != 'cmp' or g.key[0] not in ('<', '<='):
        return None
    d = g.rat
    if not d.d.is_const():
        return None
    n = d.n
    abs_atoms = {a for a in n.atoms() if a.startswith('abs#')}
    if len(abs_atoms) != 1:
        return None
    A = abs_atoms.pop()
    P, R = {}, {}
    for mono, c in n.t.items():
        dm = dict(mono)
        if A in dm:
            if dm[A] != 1:
                return None
            del dm[A]
            P[tuple(sorted(dm.items()))] = c
        else:
            R[mono] = c
    signs = set()
    for mono, c in P.items():
        if not all(a in sxm.POSITIVE_ATOMS or a.startswith('F[') or a == 'pi' for a, _ in mono):
            return None
        signs.add(c > 0)
    if len(signs) != 1:
        return None
    pos = signs.pop()
    x = ctx.defs[A][1][0]
    Pr, Rr = Rat(Poly(P)), Rat(Poly(R))
    den = Rat(d.d)
    g1 = make_cmp(g.key[0], (Pr * x + Rr) / den)
    g2 = make_cmp(g.key[0], (Pr * (-x) + Rr) / den)
    return ('and' if pos else 'or'), [g1, g2]


def expand_abs(guards, ctx):
    """DNF (list of conjunctions) of a guard conjunction with absolute values expanded"""
    dnf = [[]]
    for g in guards:
        sp = _split_abs(g, ctx)
        if sp is None:
            dnf = [c + [g] for c in dnf]
        elif sp[0] == 'and':
            dnf = [c + sp[1] for c in dnf]
        else:
            dnf = [c + [sp[1][0]] for c in dnf] + [c + [sp[1][1]] for c in dnf]
    return dnf


def contradictory(conj_a, conj_b):
    for a in conj_a:
        for b in conj_b:
            if a.opposite(b):
                return True
            st = sxm.static_truth(a)
            if st is False:
                return True
    return False


def self_contradictory(conj):
    for i, a in enumerate(conj):
        if sxm.static_truth(a) is False:
            return True
        for b in conj[i + 1:]:
            if a.opposite(b):
                return True
    return False


def compatible(guards_a, guards_b, ctx):
    for ca in expand_abs(guards_a, ctx):
        if self_contradictory(ca):
            continue
        for cb in expand_abs(guards_b, ctx):
            if self_contradictory(cb):
                continue
            if not contradictory(ca, cb) and sxm.isinstance_feasible(list(ca) + list(cb)):
                return True
    return False


def value_equal(a, b, ctx):
    """canonical equality of two abstract values"""
    if a is None or b is None:
        return a is b
    ta = getattr(a, 'term', None)
    tb = getattr(b, 'term', None)
    if ta is not None and tb is not None:
        if isinstance(a, Q) and isinstance(b, Q):
            from .spec.si import DIMS
            if DIMS.get(a.kind) != DIMS.get(b.kind):
                return False
        return ctx.eq(ta, tb)
    return repr(a) == repr(b)


class SpecCtx:
    """evaluates specification expressions with the same evaluator, in the context of a class
    (so `self.x` resolves through the same property chains to the same canonical atoms)"""

    def __init__(self, sx: SX, cls: str = None, module: str = None, symbols: dict = None, env: dict = None):
        self.sx = sx
        self.cls = cls
        self.module = module or (sx.model.classes[cls].module if cls else None)
        self.frame = {'module': self.module, 'cls': cls, 'fn': ast.parse('def spec(): pass').body[0], 'depth': 0}
        self.env = dict(env or {})
        if cls:
            self.env.setdefault('self', sxm.Ov('self', cls, True))
        for k, expr in (symbols or {}).items():
            self.env[k] = self.value(expr)

    def state(self):
        return State(env=self.env)

    def value(self, expr: str):
        node = ast.parse(expr, mode='eval').body
        rs = self.sx.eval_x(node, self.state(), self.frame)
        rs = [r for r in rs if not isinstance(r, sxm.Outcome)]
        if len(rs) != 1:
            raise CannotDecide(f'spec expression {expr!r} has {len(rs)} values')
        return rs[0][1]

    def term(self, expr: str) -> Rat:
        v = self.value(expr)
        if not hasattr(v, 'term'):
            raise CannotDecide(f'spec expression {expr!r} is not numeric: {v!r}')
        return v.term

    def guards(self, expr: str):
        """guards of the (single) way the boolean expression can be true"""
        if not expr:
            return []
        node = ast.parse(expr, mode='eval').body
        tr, fa, rs = self.sx.branch(node, self.state(), self.frame)
        if len(tr) != 1:
            raise CannotDecide(f'spec guard {expr!r} is not a conjunction ({len(tr)} ways)')
        return list(tr[0].guards)

    def guard_dnf(self, expr: str):
        if not expr:
            return [[]]
        node = ast.parse(expr, mode='eval').body
        tr, fa, rs = self.sx.branch(node, self.state(), self.frame)
        return [list(s.guards) for s in tr]


def match_cases(rep, rule, construct, loc, paths, spec_cases, ctx, show):
    """paths: list of (guards, value, lineno); spec_cases: list of (name, guards, value).
    Records one instance per spec case."""
    ok_all = True
    for name, sg, sv in spec_cases:
        hits = [(pg, pv, ln) for pg, pv, ln in paths if compatible(pg, sg, ctx)]
        cons = f'{construct}[{name}]'
        if not hits:
            rep.violation(rule, cons, f'no path of the code realises the specified case "{name}"', loc)
            ok_all = False
            continue
        bad = [(pg, pv, ln) for pg, pv, ln in hits if not value_equal(pv, sv, ctx)]
        if bad:
            pg, pv, ln = bad[0]
            rep.violation(rule, cons,
                          f'under the guards of case "{name}" the code yields a different term',
                          f'{loc.split(":")[0]}:{ln}', extracted=show(pv)[:400], oracle=show(sv)[:400],
                          path_guards=[g.show(ctx)[:120] for g in pg])
            ok_all = False
        else:
            rep.holds(rule, cons, f'{len(hits)} path(s) agree with the specified term', loc,
                      extracted=show(hits[0][1])[:300])
    return ok_all
