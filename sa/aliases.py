"""References taken at construction to a container another object later REBINDS.

`self.__time = powertrain.time` keeps the list object that `Powertrain.time` returned when the rule was built.  As long as
Powertrain only mutates that list in place the reference stays live; once a method of Powertrain assigns a new object to the
backing field (`reset`: `self.__time = []`), the holder reads a dead list - its last instant is frozen at the end of the
previous run.  The same holds for `x.time_variables[key]`, whose entries `reset` replaces by fresh lists.

Rule (who-may-hold): a field of class C initialised from `<obj>.<prop>` where <prop> is a trivial getter of a field F of class
P, and some method of P other than __init__ rebinds F, is a violation; likewise a field initialised from
`<obj>.time_variables[...]`."""
from __future__ import annotations

import ast


def _rebinders(model, P, field_attr):
    out = []
    ci = model.classes.get(P)
    if ci is None:
        return out
    for m in ci.all_members():
        if m.name == '__init__':
            continue
        for x in ast.walk(m.node):
            if isinstance(x, ast.Assign):
                for t in x.targets:
                    if isinstance(t, ast.Attribute) and isinstance(t.value, ast.Name) and t.value.id == 'self' and t.attr == field_attr:
                        out.append((m.name, x.lineno))
    return out


def _trivial_getters(model):
    """{property name -> [(class, private attr as written)]} for getters that return a private field unchanged"""
    from .srcmodel import strip_docstring
    res = {}
    for c, ci in model.classes.items():
        for m in ci.members.values():
            if m.kind != 'property':
                continue
            body = strip_docstring(m.node.body)
            if len(body) == 1 and isinstance(body[0], ast.Return) and isinstance(body[0].value, ast.Attribute) \
                    and isinstance(body[0].value.value, ast.Name) and body[0].value.value.id == 'self':
                res.setdefault(m.name, []).append((c, body[0].value.attr))
    return res


def alias_findings(model, classes=None):
    """[(class, field, lineno, module, detail)] for fields holding a reference that its owner later rebinds; and the number
    of classes scanned"""
    getters = _trivial_getters(model)
    out = []
    n = 0
    for cname, ci in sorted(model.classes.items()):
        if '/units/' in ci.module or (classes is not None and cname not in classes):
            continue
        n += 1
        for m in ci.all_members():
            for x in ast.walk(m.node):
                if not (isinstance(x, ast.Assign) and len(x.targets) == 1 and isinstance(x.targets[0], ast.Attribute)
                        and isinstance(x.targets[0].value, ast.Name) and x.targets[0].value.id == 'self'):
                    continue
                v = x.value
                f = x.targets[0].attr
                # <obj>.time_variables[...]
                if isinstance(v, ast.Subscript) and isinstance(v.value, ast.Attribute) and v.value.attr == 'time_variables':
                    out.append((cname, f, x.lineno, ci.module,
                                f'`{ast.unparse(x)[:70]}` keeps one list of time_variables; Powertrain.reset replaces every entry by a fresh '
                                f'list, after which this reference is no longer the recorded history'))
                    continue
                if not (isinstance(v, ast.Attribute) and not (isinstance(v.value, ast.Name) and v.value.id == 'self')):
                    continue
                for P, fattr in getters.get(v.attr, []):
                    if P == cname:
                        continue
                    rb = _rebinders(model, P, fattr)
                    if rb:
                        out.append((cname, f, x.lineno, ci.module,
                                    f'`{ast.unparse(x)[:70]}` keeps the object {P}.{v.attr} returned when {m.name} ran; {P}.{rb[0][0]} (line {rb[0][1]}) '
                                    f'binds a new object to that field, after which this reference is dead (its content frozen at that moment)'))
                        break
    return out, n


def descriptor_findings(model):
    """[(owner class, attribute, descriptor class, module, line, detail)] for class attributes bound to an instance of a class whose
    `__set__(self, instance, value)` keeps the value on the descriptor object (`self.x = value`) instead of on `instance`:
    a descriptor is ONE object per class attribute, so every instance of the owner then shares the last value assigned"""
    sharing = {}
    for cname, ci in model.classes.items():
        st = ci.members.get('__set__')
        if st is None:
            continue
        args = [a.arg for a in st.node.args.args]
        if len(args) < 3:
            continue
        me, inst = args[0], args[1]
        on_self = [x for x in ast.walk(st.node) if isinstance(x, ast.Attribute) and isinstance(x.ctx, ast.Store)
                   and isinstance(x.value, ast.Name) and x.value.id == me]
        if on_self:
            sharing[cname] = (st, on_self[0])
    out = []
    if not sharing:
        return out
    for cname, ci in model.classes.items():
        for attr, v in ci.class_attrs.items():
            if isinstance(v, ast.Call) and isinstance(v.func, ast.Name) and v.func.id in sharing:
                st, site = sharing[v.func.id]
                out.append((cname, attr, v.func.id, ci.module, v.lineno,
                            f'`{attr} = {ast.unparse(v)[:40]}`: {v.func.id}.__set__ stores the value on the descriptor itself (`{ast.unparse(site)}`, line '
                            f'{site.lineno}), which is one object for the whole class: every {cname} shares the value assigned last'))
    return out


def mutable_default_findings(model):
    """[(qualname, parameter, module, line, detail)]: a parameter whose default is a mutable container (list / dict / set / deque ...)
    that the function mutates or hands out: the default is ONE object made when the function is defined, so what one call leaves
    in it is still there in the next call, on any object"""
    out = []
    units = [(fname, mod, fn) for fname, (mod, fn) in model.functions.items()]
    for cname, ci in model.classes.items():
        for mem in ci.all_members():
            units.append((mem.qualname, ci.module, mem.node))
    MUT = ('append', 'extend', 'insert', 'pop', 'popleft', 'appendleft', 'remove', 'clear', 'update', 'add', 'setdefault', 'sort', 'reverse', 'discard')
    for qual, mod, fn in units:
        args = fn.args.args + fn.args.kwonlyargs
        defaults = [None] * (len(fn.args.args) - len(fn.args.defaults)) + list(fn.args.defaults) + list(fn.args.kw_defaults)
        for a, d in zip(args, defaults):
            if d is None:
                continue
            mutable = isinstance(d, (ast.List, ast.Dict, ast.Set)) or (
                isinstance(d, ast.Call) and isinstance(d.func, (ast.Name, ast.Attribute))
                and (d.func.id if isinstance(d.func, ast.Name) else d.func.attr) in ('list', 'dict', 'set', 'deque', 'defaultdict', 'OrderedDict', 'Counter', 'bytearray'))
            if not mutable:
                continue
            touched = None
            for x in ast.walk(fn):
                if isinstance(x, ast.Call) and isinstance(x.func, ast.Attribute) and isinstance(x.func.value, ast.Name) \
                        and x.func.value.id == a.arg and x.func.attr in MUT:
                    touched = x
                if isinstance(x, ast.Subscript) and isinstance(x.ctx, (ast.Store, ast.Del)) and isinstance(x.value, ast.Name) and x.value.id == a.arg:
                    touched = x
                if isinstance(x, ast.Return) and isinstance(x.value, ast.Name) and x.value.id == a.arg:
                    touched = touched or x
                if isinstance(x, ast.Assign) and isinstance(x.value, ast.Name) and x.value.id == a.arg \
                        and any(isinstance(t, ast.Attribute) for t in x.targets):
                    touched = touched or x
            if touched is not None:
                out.append((qual, a.arg, mod, d.lineno,
                            f'parameter `{a.arg}={ast.unparse(d)[:30]}` is a mutable default that the function changes or hands out (line {touched.lineno}): '
                            f'the default is one object shared by every call - what a call leaves in it (e.g. after an early exit) is seen by the '
                            f'next call, on any object'))
    return out


def late_binding_findings(model):
    """[(module, line, detail)]: a lambda (or nested def) created inside a comprehension or a loop that reads the iteration variable
    without binding it (`{k: lambda x: f(x, v) for k, v in ...}`): every closure sees the LAST value of the variable when it is called"""
    out = []
    for mod, tree in model.trees.items():
        parents = {}
        for p in ast.walk(tree):
            for ch in ast.iter_child_nodes(p):
                parents[id(ch)] = p
        for lam in ast.walk(tree):
            if not isinstance(lam, (ast.Lambda,)):
                continue
            bound = {a.arg for a in lam.args.args + lam.args.kwonlyargs}
            free = {n.id for n in ast.walk(lam.body) if isinstance(n, ast.Name) and isinstance(n.ctx, ast.Load)} - bound
            p = parents.get(id(lam))
            while p is not None:
                targets = set()
                stored = False
                if isinstance(p, (ast.ListComp, ast.DictComp, ast.SetComp)):
                    for g in p.generators:
                        targets |= {n.id for n in ast.walk(g.target) if isinstance(n, ast.Name)}
                    stored = True
                elif isinstance(p, ast.For):
                    targets = {n.id for n in ast.walk(p.target) if isinstance(n, ast.Name)}
                    stored = True
                hit = sorted(free & targets)
                if stored and hit:
                    out.append((mod, lam.lineno, f'the lambda at line {lam.lineno} reads the iteration variable {hit} of the enclosing '
                                                 f'{"comprehension" if not isinstance(p, ast.For) else "loop"} when it is CALLED, not when it is created: every '
                                                 f'function built there uses the last value ({hit[0]}=... of the final iteration)'))
                    break
                p = parents.get(id(p))
    return out


def value_order_findings(model, cls):
    """[(qualname, module, line, detail)]: sort / sorted inside the methods of `cls`: element quantities combined by position after a
    sort are paired by VALUE, not by place in the chain"""
    out = []
    ci = model.classes.get(cls)
    for mem in (ci.all_members() if ci else ()):
        for x in ast.walk(mem.node):
            name = None
            if isinstance(x, ast.Call) and isinstance(x.func, ast.Attribute) and x.func.attr == 'sort':
                name = f'{ast.unparse(x.func.value)[:30]}.sort(...)'
            if isinstance(x, ast.Call) and isinstance(x.func, ast.Name) and x.func.id == 'sorted':
                name = ast.unparse(x)[:40]
            if name:
                out.append((mem.qualname, ci.module, x.lineno,
                            f'`{name}` orders values by magnitude: what is combined with them by position afterwards belongs to the element at '
                            f'that place of the chain only when the values happen to be monotone along it'))
    return out
