"""References taken at construction to a container another object later REBINDS.

`self.__time = powertrain.time` keeps the list object that `Powertrain.time` returned when the rule was built.  As long as
Powertrain only mutates that list in place the reference stays live; once a method of Powertrain assigns a new object to the
backing field (`reset`: `self.__time = []`), the holder reads a dead list - its last instant is frozen at the end of the
previous run.  The same holds for `x.time_variables[key]`, whose entries `reset` replaces by fresh lists.

Rule (who-may-hold): a field of class C initialised from `<obj>.<prop>` where <prop> is a trivial getter of a field F of class
P, and some method of P other than __init__ rebinds F, is a violation; likewise a field initialised from
`<obj>.time_variables[...]`."""
from __future__ import annotations

import ast


def _rebinders(model, P, field_attr):
    out = []
    ci = model.classes.get(P)
    if ci is None:
        return out
    for m in ci.all_members():
        if m.name == '__init__':
            continue
        for x in ast.walk(m.node):
            if isinstance(x, ast.Assign):
                for t in x.targets:
                    if isinstance(t, ast.Attribute) and isinstance(t.value, ast.Name) and t.value.id == 'self' and t.attr == field_attr:
                        out.append((m.name, x.lineno))
    return out


def _trivial_getters(model):
    """{property name -> [(class, private attr as written)]} for getters that return a private field unchanged"""
    from .srcmodel import strip_docstring
    res = {}
    for c, ci in model.classes.items():
        for m in ci.members.values():
            if m.kind != 'property':
                continue
            body = strip_docstring(m.node.body)
            if len(body) == 1 and isinstance(body[0], ast.Return) and isinstance(body[0].value, ast.Attribute) \
                    and isinstance(body[0].value.value, ast.Name) and body[0].value.value.id == 'self':
                res.setdefault(m.name, []).append((c, body[0].value.attr))
    return res


def alias_findings(model, classes=None):
    """[(class, field, lineno, module, detail)] for fields holding a reference that its owner later rebinds; and the number
    of classes scanned"""
    getters = _trivial_getters(model)
    out = []
    n = 0
    for cname, ci in sorted(model.classes.items()):
        if '/units/' in ci.module or (classes is not None and cname not in classes):
            continue
        n += 1
        for m in ci.all_members():
            for x in ast.walk(m.node):
                if not (isinstance(x, ast.Assign) and len(x.targets) == 1 and isinstance(x.targets[0], ast.Attribute)
                        and isinstance(x.targets[0].value, ast.Name) and x.targets[0].value.id == 'self'):
                    continue
                v = x.value
                f = x.targets[0].attr
                # <obj>.time_variables[...]
                if isinstance(v, ast.Subscript) and isinstance(v.value, ast.Attribute) and v.value.attr == 'time_variables':
                    out.append((cname, f, x.lineno, ci.module,
                                f'`{ast.unparse(x)[:70]}` keeps one list of time_variables; Powertrain.reset replaces every entry by a fresh '
                                f'list, after which this reference is no longer the recorded history'))
                    continue
                if not (isinstance(v, ast.Attribute) and not (isinstance(v.value, ast.Name) and v.value.id == 'self')):
                    continue
                for P, fattr in getters.get(v.attr, []):
                    if P == cname:
                        continue
                    rb = _rebinders(model, P, fattr)
                    if rb:
                        out.append((cname, f, x.lineno, ci.module,
                                    f'`{ast.unparse(x)[:70]}` keeps the object {P}.{v.attr} returned when {m.name} ran; {P}.{rb[0][0]} (line {rb[0][1]}) '
                                    f'binds a new object to that field, after which this reference is dead (its content frozen at that moment)'))
                        break
    return out, n


def descriptor_findings(model):
    """[(owner class, attribute, descriptor class, module, line, detail)] for class attributes bound to an instance of a class whose
    `__set__(self, instance, value)` keeps the value on the descriptor object (`self.x = value`) instead of on `instance`:
    a descriptor is ONE object per class attribute, so every instance of the owner then shares the last value assigned"""
    sharing = {}
    for cname, ci in model.classes.items():
        st = ci.members.get('__set__')
        if st is None:
            continue
        args = [a.arg for a in st.node.args.args]
        if len(args) < 3:
            continue
        me, inst = args[0], args[1]
        on_self = [x for x in ast.walk(st.node) if isinstance(x, ast.Attribute) and isinstance(x.ctx, ast.Store)
                   and isinstance(x.value, ast.Name) and x.value.id == me]
        if on_self:
            sharing[cname] = (st, on_self[0])
    out = []
    if not sharing:
        return out
    for cname, ci in model.classes.items():
        for attr, v in ci.class_attrs.items():
            if isinstance(v, ast.Call) and isinstance(v.func, ast.Name) and v.func.id in sharing:
                st, site = sharing[v.func.id]
                out.append((cname, attr, v.func.id, ci.module, v.lineno,
                            f'`{attr} = {ast.unparse(v)[:40]}`: {v.func.id}.__set__ stores the value on the descriptor itself (`{ast.unparse(site)}`, line '
                            f'{site.lineno}), which is one object for the whole class: every {cname} shares the value assigned last'))
    return out
