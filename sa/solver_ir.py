"""E4 - solver IR: `Solver.run` evaluated by sa.sx into an event structure over an abstract element
array E[0..n-1].

* the call tree of `run` is inlined (helper methods of Solver; Powertrain.update_time); methods of
  elements, rules and stop conditions stay calls with effect summaries (sa.effects);
* every `for` loop becomes one Loop event: iteration space (affine in n = len(elements) for
  `range`, slices, `reversed`, `zip` of slices; a float grid for numpy.arange/linspace), loop-carried
  variables with their recurrence, and the body's paths (guards, events, exit);
* element accesses are named E[<affine index>] with canonical index text.
The rules (checks c01..c03, c11..c14, c16, c17) query this structure; nothing is executed."""
from __future__ import annotations

import ast
import itertools
from dataclasses import dataclass, field

from .algebra import Rat, num
from .core import AnalysisError
from . import sx as sxm
from .sx import (SX, State, Outcome, N, Q, Dyn, Ov, Seq, Unk, Bv, Bsym, NoneV, Fv, Sv, Cv, G, CannotDecide,
                 strip_docstring, U)

NATOM = 'n'
_loop_ids = itertools.count()


@dataclass
class LoopPath:
    guards: tuple
    effects: tuple
    exit: str            # 'next' | 'break' | 'raise:<Exc>' | 'return'
    carried: dict = field(default_factory=dict)   # name -> value at the end of the iteration


@dataclass
class Loop:
    id: int
    lineno: int
    func: str
    kind: str            # 'index' (integer index space) | 'grid' (float grid) | 'opaque'
    var: str = None
    index: Rat = None    # the symbolic index / grid value of one iteration
    start: Rat = None
    stop: Rat = None     # exclusive, python range semantics (for 'index')
    step: Rat = None
    grid: dict = None    # for kind 'grid': {'fn': 'arange'|'linspace', 'args': [...], 'kwargs': {...}}
    binds: dict = field(default_factory=dict)    # target name -> text of the bound value (E[i+1], ...)
    paths: list = field(default_factory=list)
    carries: dict = field(default_factory=dict)  # name -> init value
    iter_text: str = ''

    def index_set(self, ctx):
        return f'range({ctx.show(self.start)}, {ctx.show(self.stop)}, {ctx.show(self.step)})'


def is_elements(seq: Seq):
    return isinstance(seq, Seq) and seq.path.split('[')[0].endswith('.elements')


def normalise_deciders(model):
    """A mode decision written as a function - `self.F = self.M()` with M a pure decision that RETURNS True / False / the
    present value of F - is rewritten to the shape the rules are stated for: M assigns F itself and the call stands alone.
    Sound because it is done only when every call of M in the class is the right-hand side of an assignment to the same
    field F, M writes nothing, every path of M ends in a `return <bool constant | self.F>`.  Idempotent."""
    ci = model.classes.get('Solver')
    if ci is None or getattr(ci, '_deciders_normalised', False):
        return
    ci._deciders_normalised = True

    def ret_ok(v):
        return (isinstance(v, ast.Constant) and isinstance(v.value, bool)) or \
            (isinstance(v, ast.Attribute) and isinstance(v.value, ast.Name) and v.value.id == 'self')

    def pure(stmts):
        """(ok, always_returns)"""
        for i, s_ in enumerate(stmts):
            if isinstance(s_, ast.If):
                a, ra = pure(s_.body)
                b, rb = pure(s_.orelse) if s_.orelse else (True, False)
                if not (a and b):
                    return False, False
                if ra and rb:
                    return True, True
            elif isinstance(s_, ast.Return):
                return (s_.value is not None and ret_ok(s_.value)), True
            elif isinstance(s_, ast.Pass) or (isinstance(s_, ast.Expr) and isinstance(s_.value, ast.Constant)):
                continue
            elif isinstance(s_, ast.Assign) and len(s_.targets) == 1 and isinstance(s_.targets[0], ast.Name):
                continue
            else:
                return False, False
        return True, False
    class SplitConditionalReturns(ast.NodeTransformer):
        """`return A if c else B` -> `if c: return A` / `else: return B` (same evaluation order: c, then the chosen branch)"""
        def visit_Return(self, r):
            if isinstance(r.value, ast.IfExp):
                a = self.visit_Return(ast.copy_location(ast.Return(value=r.value.body), r))
                b = self.visit_Return(ast.copy_location(ast.Return(value=r.value.orelse), r))
                node = ast.copy_location(ast.If(test=r.value.test, body=a if isinstance(a, list) else [a],
                                                orelse=b if isinstance(b, list) else [b]), r)
                ast.fix_missing_locations(node)
                return node
            return r

        def visit_FunctionDef(self, fnode):
            return fnode            # nested functions are left alone
    for name, mem in list(ci.members.items()):
        if name in ('run', '__init__') or mem.kind != 'method' and getattr(mem, 'kind', 'method') in ('property', 'setter'):
            continue
        if any(isinstance(r, ast.Return) and isinstance(r.value, ast.IfExp) for r in ast.walk(mem.node)):
            import copy as _copy
            trial = _copy.deepcopy(mem.node)
            trial.body = [SplitConditionalReturns().visit(b) for b in trial.body]
            ok_t, always_t = pure(trial.body)
            if ok_t and always_t:
                mem.node.body = trial.body
        ok, always = pure(mem.node.body)
        if not (ok and always):
            continue
        consts = [r for r in ast.walk(mem.node) if isinstance(r, ast.Return) and isinstance(r.value, ast.Constant)]
        if not consts:
            continue
        # call sites
        sites, other = [], 0
        for m2 in ci.all_members():
            for x in ast.walk(m2.node):
                if isinstance(x, ast.Call) and isinstance(x.func, ast.Attribute) and x.func.attr == name \
                        and isinstance(x.func.value, ast.Name) and x.func.value.id == 'self':
                    other += 1
            for x in ast.walk(m2.node):
                if isinstance(x, ast.Assign) and len(x.targets) == 1 and isinstance(x.targets[0], ast.Attribute) \
                        and isinstance(x.targets[0].value, ast.Name) and x.targets[0].value.id == 'self' \
                        and isinstance(x.value, ast.Call) and isinstance(x.value.func, ast.Attribute) and x.value.func.attr == name \
                        and isinstance(x.value.func.value, ast.Name) and x.value.func.value.id == 'self' and not x.value.args and not x.value.keywords:
                    sites.append((m2, x))
        fields = {x.targets[0].attr for _, x in sites}
        if not sites or other != len(sites) or len(fields) != 1:
            continue
        F = fields.pop()
        rets_attr = {r.value.attr for r in ast.walk(mem.node) if isinstance(r, ast.Return) and isinstance(r.value, ast.Attribute)}
        if rets_attr - {F}:
            continue

        class RewriteReturns(ast.NodeTransformer):
            def visit_Return(self, r):
                if isinstance(r.value, ast.Attribute):
                    return ast.copy_location(ast.Return(value=None), r)
                st = ast.copy_location(ast.Assign(targets=[ast.Attribute(value=ast.Name(id='self', ctx=ast.Load()), attr=F, ctx=ast.Store())],
                                                  value=r.value), r)
                ast.fix_missing_locations(st)
                return [st, ast.copy_location(ast.Return(value=None), r)]

            def visit_FunctionDef(self, fnode):
                if fnode is mem.node:
                    self.generic_visit(fnode)
                return fnode
        RewriteReturns().visit(mem.node)

        class RewriteSites(ast.NodeTransformer):
            def visit_Assign(self, x):
                if any(x is sx_ for _, sx_ in sites):
                    return ast.copy_location(ast.Expr(value=x.value), x)
                return x
        for m2 in {id(m_): m_ for m_, _ in sites}.values():
            RewriteSites().visit(m2.node)
            ast.fix_missing_locations(m2.node)


class SolverIR:
    def __init__(self, model, opaque_methods=None):
        self.model = model
        normalise_deciders(model)
        self.sx = SX(model)
        self.ctx = self.sx.ctx
        self.sx.loop_handler = self.loop
        self.sx.call_hook = self.call_hook
        if opaque_methods is None:
            opaque_methods = self.state_deciders(model)
        self.sx.opaque_calls |= set(opaque_methods) | {'check_condition'}
        self.n = Rat.atom(NATOM)
        self.loops = {}

    @staticmethod
    def state_deciders(model):
        """helper methods of Solver that assign boolean constants to solver fields (mode decisions such as the
        lock of a self-locking powertrain): kept as calls in the run IR and analysed on their own (C13)"""
        normalise_deciders(model)
        out = set()
        ci = model.classes.get('Solver')
        if not ci:
            return out
        def pure_decision(stmts):
            # only tests, boolean assignments to solver fields, local bindings and returns: no loops, no calls as statements
            for s_ in stmts:
                if isinstance(s_, ast.If):
                    if not (pure_decision(s_.body) and pure_decision(s_.orelse)):
                        return False
                elif isinstance(s_, (ast.Return, ast.Pass)):
                    continue
                elif isinstance(s_, ast.Expr) and isinstance(s_.value, ast.Constant):
                    continue
                elif isinstance(s_, ast.Assign) and len(s_.targets) == 1:
                    t = s_.targets[0]
                    if isinstance(t, ast.Name):
                        continue
                    if isinstance(t, ast.Attribute) and isinstance(t.value, ast.Name) and t.value.id == 'self' \
                            and isinstance(s_.value, ast.Constant) and isinstance(s_.value.value, bool):
                        continue
                    return False
                else:
                    return False
            return True
        for name, mem in ci.members.items():
            if name in ('run', '__init__'):
                continue
            sets_flag = any(isinstance(n, ast.Assign) and isinstance(n.value, ast.Constant) and isinstance(n.value.value, bool)
                            and any(isinstance(t, ast.Attribute) and isinstance(t.value, ast.Name) and t.value.id == 'self' for t in n.targets)
                            for n in ast.walk(mem.node))
            if sets_flag and pure_decision(mem.node.body):
                out.add(name)
        return out

    # ---- hooks
    def call_hook(self, sx, n, f, recv, args, kwargs, st, frame):
        if isinstance(f, ast.Name) and f.id == 'len' and len(args) == 1 and is_elements(args[0]) \
                and '[' not in args[0].path:
            return [(st, N(self.n, 'int'))]
        if isinstance(f, ast.Attribute) and isinstance(recv, Seq) and f.attr == 'append' and len(args) == 1:
            return [(st.with_effect(('append', recv.path, args[0], n.lineno)), NoneV())]
        if isinstance(f, ast.Attribute) and isinstance(recv, Ov) and recv.path == 'self' and f.attr in sx.opaque_calls:
            # opaque helper of the solver: forget what it may write
            s2 = st.copy()
            writes = self_field_writes(self.model, recv.cls, f.attr)
            for w in writes:
                s2.bump('self', w)
            s2.effects = s2.effects + (('call', 'self', f.attr, args, kwargs, n.lineno, ('@g', len(s2.guards))),)
            return [(s2, NoneV())]
        return None

    def elem(self, base: Seq, idx: Rat) -> Ov:
        return Ov(f'E[{self.ctx.show(idx)}]', 'RotatingObject', False)

    # ---- subscript of the element tuple with canonical affine index
    def install_subscript(self):
        orig = self.sx.subscript
        me = self

        def subscript(base, idx, st, frame, node):
            if is_elements(base) and '[' not in base.path and isinstance(idx, N):
                t = idx.term
                if t.is_const() and t.const_value() < 0:
                    t = me.n + t
                return me.elem(base, t)
            return orig(base, idx, st, frame, node)
        self.sx.subscript = subscript

    # ---- loops
    def _range_args(self, call, st, frame):
        vals = []
        for a in call.args:
            v = self.sx.eval1(a, st, frame)
            if not isinstance(v, N):
                raise CannotDecide(f'range argument {ast.unparse(a)} is not an integer expression')
            vals.append(v.term)
        one, zero = Rat.const(1), Rat.const(0)
        if len(vals) == 1:
            return zero, vals[0], one
        if len(vals) == 2:
            return vals[0], vals[1], one
        return vals[0], vals[1], vals[2]

    def _slice_bounds(self, sl, st, frame):
        """(start, stop) of a slice of the element tuple, as affine terms"""
        def ev(x, default):
            if x is None:
                return default
            v = self.sx.eval1(x, st, frame)
            if not isinstance(v, N):
                raise CannotDecide('slice bound')
            t = v.term
            if t.is_const() and t.const_value() < 0:
                t = self.n + t
            return t
        if sl.step is not None:
            raise CannotDecide('slice with step')
        return ev(sl.lower, Rat.const(0)), ev(sl.upper, self.n)

    def _seq_iter(self, it, st, frame):
        """iteration over the element tuple or a slice of it -> (start, stop) or None"""
        if isinstance(it, ast.Subscript) and isinstance(it.slice, ast.Slice):
            base = self.sx.eval1(it.value, st, frame)
            if is_elements(base) and '[' not in base.path:
                return self._slice_bounds(it.slice, st, frame), base
            return None
        try:
            v = self.sx.eval1(it, st, frame)
        except CannotDecide:
            return None
        if is_elements(v) and '[' not in v.path:
            return (Rat.const(0), self.n), v
        return None

    # ---- general views of the element tuple: slices (step 1 or -1), reversed(), list()/tuple(), enumerate(), zip()
    def _view(self, it, st, frame):
        """{'first', 'count', 'dir', 'base'} for an expression denoting a run of consecutive elements of the element
        tuple (position j in 0..count-1 is element first + dir*j), or None"""
        one = Rat.const(1)
        if isinstance(it, ast.Call) and isinstance(it.func, ast.Name) and it.func.id in ('list', 'tuple', 'iter') and len(it.args) == 1:
            return self._view(it.args[0], st, frame)
        if isinstance(it, ast.Call) and isinstance(it.func, ast.Name) and it.func.id == 'reversed' and len(it.args) == 1:
            v = self._view(it.args[0], st, frame)
            if v is None:
                return None
            return {'first': v['first'] + v['dir'] * (v['count'] - one), 'count': v['count'], 'dir': -v['dir'], 'base': v['base']}
        if isinstance(it, ast.Subscript) and isinstance(it.slice, ast.Slice):
            try:
                base = self.sx.eval1(it.value, st, frame)
            except CannotDecide:
                return None
            if not (is_elements(base) and '[' not in base.path):
                return None
            sl = it.slice

            def ev(x):
                v = self.sx.eval1(x, st, frame)
                if not isinstance(v, N):
                    raise CannotDecide('slice bound')
                t = v.term
                if t.is_const() and t.const_value() < 0:
                    t = self.n + t
                return t
            step = 1
            if sl.step is not None:
                sv = self.sx.eval1(sl.step, st, frame)
                if not (isinstance(sv, N) and sv.term.is_const() and sv.term.const_value() in (1, -1)):
                    raise CannotDecide('slice with a step other than 1 or -1')
                step = int(sv.term.const_value())
            if step == 1:
                lo = ev(sl.lower) if sl.lower is not None else Rat.const(0)
                hi = ev(sl.upper) if sl.upper is not None else self.n
                return {'first': lo, 'count': hi - lo, 'dir': one, 'base': base}
            start = ev(sl.lower) if sl.lower is not None else self.n - one
            stop = ev(sl.upper) if sl.upper is not None else Rat.const(-1)      # exclusive
            return {'first': start, 'count': start - stop, 'dir': -one, 'base': base}
        try:
            v = self.sx.eval1(it, st, frame)
        except CannotDecide:
            return None
        if is_elements(v) and '[' not in v.path:
            return {'first': Rat.const(0), 'count': self.n, 'dir': one, 'base': v}
        if is_elements(v):
            # a local bound earlier to a slice of the element tuple (`first, *rest = elements`, `driven = elements[1:]`)
            import re
            mm = re.match(r'^([^\[]*)\[(-?\d*):(-?\d*)\]$', v.path)
            if mm:
                def bound(txt, default):
                    if txt == '':
                        return default
                    c = int(txt)
                    return Rat.const(c) if c >= 0 else self.n + Rat.const(c)
                lo = bound(mm.group(2), Rat.const(0))
                hi = bound(mm.group(3), self.n)
                return {'first': lo, 'count': hi - lo, 'dir': one, 'base': Seq(mm.group(1), v.elem)}
        return None

    def _iteration(self, it, target, st, frame):
        """binding plan for `for target in it` over views: (views, enum_start or None, reversed_order) or None"""
        rev = False
        node = it
        while isinstance(node, ast.Call) and isinstance(node.func, ast.Name) and node.func.id in ('list', 'tuple', 'reversed') and len(node.args) == 1:
            inner = node.args[0]
            if node.func.id == 'reversed':
                # reversed() of a plain view is a view; reversed() of an enumerate/zip flips the iteration order
                if self._view(node, st, frame) is not None:
                    break
                rev = not rev
            elif self._view(node, st, frame) is not None:
                break
            node = inner
        if isinstance(node, ast.Call) and isinstance(node.func, ast.Name) and node.func.id == 'enumerate' and node.args:
            v = self._view(node.args[0], st, frame)
            if v is None:
                return None
            start = Rat.const(0)
            extra = list(node.args[1:]) + [k.value for k in node.keywords if k.arg == 'start']
            if extra:
                sv = self.sx.eval1(extra[0], st, frame)
                if not isinstance(sv, N):
                    return None
                start = sv.term
            return [v], start, rev
        if isinstance(node, ast.Call) and isinstance(node.func, ast.Name) and node.func.id == 'pairwise' and len(node.args) == 1 \
                and 'pairwise' not in self.model.functions:
            # itertools.pairwise(view): the view zipped with itself shifted by one position (in the view's own direction)
            v = self._view(node.args[0], st, frame)
            if v is None:
                return None
            one = Rat.const(1)
            return [{'first': v['first'], 'count': v['count'] - one, 'dir': v['dir'], 'base': v['base']},
                    {'first': v['first'] + v['dir'], 'count': v['count'] - one, 'dir': v['dir'], 'base': v['base']}], None, rev
        if isinstance(node, ast.Call) and isinstance(node.func, ast.Name) and node.func.id == 'zip' and node.args:
            vs = [self._view(a, st, frame) for a in node.args]
            if any(v is None for v in vs):
                return None
            return vs, None, rev
        v = self._view(node, st, frame)
        if v is None:
            return None
        return [v], None, rev

    def loop(self, sx, node: ast.For, st: State, frame):
        lid = next(_loop_ids)
        L = Loop(lid, node.lineno, frame['fn'].name, 'opaque', iter_text=ast.unparse(node.iter)[:120])
        it = node.iter
        env_binds = {}
        idx_atom = Rat.atom(f'i{lid}')
        rev = False
        if isinstance(it, ast.Call) and isinstance(it.func, ast.Name) and it.func.id == 'reversed' and len(it.args) == 1:
            rev = True
            it = it.args[0]
        if isinstance(it, ast.Call) and isinstance(it.func, ast.Name) and it.func.id == 'range':
            a, b, c = self._range_args(it, st, frame)
            L.kind, L.start, L.stop, L.step = 'index', a, b, c
            if not isinstance(node.target, ast.Name):
                raise CannotDecide('range loop target')
            L.var = node.target.id
            env_binds[L.var] = N(idx_atom, 'int')
        elif (plan := self._iteration(node.iter, node.target, st, frame)) is not None:
            views, enum_start, flipped = plan
            rev = False
            one = Rat.const(1)
            # zip stops at the shortest run: lengths that differ by a constant are truncated to the minimum
            cmin = views[0]['count']
            for v in views[1:]:
                dlt = v['count'] - cmin
                if not dlt.is_const():
                    raise CannotDecide('zip of runs whose lengths are not comparable')
                if dlt.const_value() < 0:
                    cmin = v['count']
            for v in views:
                v['count'] = cmin
            v0 = views[0]
            for v in views[1:]:
                if not (v['dir'] - v0['dir']).is_zero():
                    raise CannotDecide('zip of runs in opposite directions')
            d = v0['dir']
            # the loop index is the element index of the first run; iteration order as written (or flipped by reversed(enumerate/zip))
            lo, hi = v0['first'], v0['first'] + d * v0['count']
            if flipped:
                L.kind, L.start, L.stop, L.step = 'index', hi - d, lo - d, -d
            else:
                L.kind, L.start, L.stop, L.step = 'index', lo, hi, d
            targets = []
            if enum_start is not None:
                if not (isinstance(node.target, ast.Tuple) and len(node.target.elts) == 2 and all(isinstance(e, ast.Name) for e in node.target.elts)):
                    raise CannotDecide('enumerate target')
                env_binds[node.target.elts[0].id] = N((idx_atom - v0['first']) * d + enum_start, 'int')
                targets = [node.target.elts[1]]
            elif len(views) == 1:
                targets = [node.target]
            else:
                if not (isinstance(node.target, ast.Tuple) and len(node.target.elts) == len(views)):
                    raise CannotDecide('zip target')
                targets = list(node.target.elts)
            for t, v in zip(targets, views):
                if not isinstance(t, ast.Name):
                    raise CannotDecide('loop target')
                env_binds[t.id] = self.elem(v['base'], idx_atom + (v['first'] - v0['first']))
            L.var = targets[0].id if targets else None
        elif isinstance(it, ast.Call) and isinstance(it.func, ast.Name) and it.func.id in ('zip', 'enumerate'):
            if it.func.id == 'enumerate':
                r = self._seq_iter(it.args[0], st, frame)
                if r is None or not isinstance(node.target, ast.Tuple) or len(node.target.elts) != 2:
                    raise CannotDecide('enumerate idiom')
                (a, b), base = r
                L.kind, L.start, L.stop, L.step = 'index', a, b, Rat.const(1)
                env_binds[node.target.elts[0].id] = N(idx_atom - a, 'int')
                env_binds[node.target.elts[1].id] = self.elem(base, idx_atom)
            else:
                rs = [self._seq_iter(x, st, frame) for x in it.args]
                if any(r is None for r in rs) or not isinstance(node.target, ast.Tuple) or len(node.target.elts) != len(rs):
                    raise CannotDecide('zip idiom')
                (a0, b0), base = rs[0]
                length = b0 - a0
                for (ab, bs), t in zip(rs, node.target.elts):
                    if not (ab[1] - ab[0]).eq(length):
                        raise CannotDecide('zip of slices of different length')
                    env_binds[t.id] = self.elem(bs, idx_atom + (ab[0] - a0))
                L.kind, L.start, L.stop, L.step = 'index', a0, b0, Rat.const(1)
        elif isinstance(it, ast.Call) and isinstance(it.func, ast.Attribute) and it.func.attr in ('arange', 'linspace') \
                and isinstance(it.func.value, ast.Name) and it.func.value.id in ('np', 'numpy'):
            args = [self.sx.eval1(a, st, frame) for a in it.args]
            kwargs = {k.arg: self.sx.eval1(k.value, st, frame) for k in it.keywords}
            L.kind = 'grid'
            L.grid = {'fn': it.func.attr, 'args': args, 'kwargs': kwargs, 'node': it}
            L.var = node.target.id
            env_binds[L.var] = N(Rat.atom(f'k{lid}'), 'float')
            idx_atom = Rat.atom(f'k{lid}')
        else:
            r = self._seq_iter(it, st, frame)
            if r is None:
                # iteration over an opaque collection (dict keys, a list of names): one symbolic element
                if isinstance(node.target, ast.Tuple) and len(node.target.elts) == 2 and all(isinstance(e, ast.Name) for e in node.target.elts) \
                        and isinstance(it, ast.Call) and isinstance(it.func, ast.Attribute) and it.func.attr == 'items' and not it.args:
                    # for key, value in d.items():  ==  for key in d.keys(): value = d[key]
                    kname, vname = node.target.elts[0].id, node.target.elts[1].id
                    dval = self.sx.eval1(it.func.value, st, frame)
                    key = Unk(f'each<{self.sx.show(dval)[:60]}.keys()>')
                    L.kind = 'each'
                    L.var = kname
                    L.iter_text = ast.unparse(it.func.value)[:100] + '.keys()'
                    env_binds[kname] = key
                    env_binds[vname] = self.sx.subscript(dval, key, st, frame, node)
                    r = ((Rat.const(0), Rat.const(0)), None)
                elif not isinstance(node.target, ast.Name):
                    raise CannotDecide(f'loop over `{ast.unparse(node.iter)[:60]}` at line {node.lineno} is outside the '
                                       f'recognised idioms')
                else:
                    L.kind = 'each'
                    L.var = node.target.id
                    text = ast.unparse(node.iter)[:60]
                    # name the generic element by the VALUE iterated over, so that a local alias of the collection
                    # (`recorded = element.time_variables`) gives the same atom as the spelled-out expression
                    if isinstance(it, ast.Call) and isinstance(it.func, ast.Attribute) and it.func.attr in ('keys', 'values') and not it.args:
                        try:
                            text = self.sx.show(self.sx.eval1(it.func.value, st, frame))[:60] + f'.{it.func.attr}()'
                        except CannotDecide:
                            pass
                    elif isinstance(it, (ast.Name, ast.Attribute)):
                        try:
                            v_ = self.sx.eval1(it, st, frame)
                            if isinstance(v_, (Unk, Dyn)):
                                text = self.sx.show(v_)[:60]
                        except CannotDecide:
                            pass
                    L.iter_text = text
                    env_binds[L.var] = Unk(f'each<{text}>')
                    r = ((Rat.const(0), Rat.const(0)), None)
            (a, b), base = r
            if L.kind != 'each':
                L.kind, L.start, L.stop, L.step = 'index', a, b, Rat.const(1)
                if not isinstance(node.target, ast.Name):
                    raise CannotDecide('loop target')
                L.var = node.target.id
                env_binds[L.var] = self.elem(base, idx_atom)
        if rev:
            if L.kind != 'index':
                raise CannotDecide('reversed of a non-index loop')
            # reversed(range(a, b, c)) with c == 1: b-1 down to a
            if not L.step.eq(Rat.const(1)):
                raise CannotDecide('reversed range with a step')
            L.start, L.stop, L.step = L.stop - Rat.const(1), L.start - Rat.const(1), Rat.const(-1)
        L.index = idx_atom
        L.binds = {k: sx.show(v) for k, v in env_binds.items()}
        # loop-carried locals and self fields
        assigned_names, assigned_fields = set(), set()
        for s in ast.walk(ast.Module(body=node.body, type_ignores=[])):
            tg = []
            if isinstance(s, ast.Assign):
                tg = s.targets
            elif isinstance(s, (ast.AugAssign, ast.AnnAssign)):
                tg = [s.target]
            for t in tg:
                if isinstance(t, ast.Name):
                    assigned_names.add(t.id)
                elif isinstance(t, ast.Attribute) and isinstance(t.value, ast.Name) and t.value.id == 'self':
                    assigned_fields.add(self.model.mangle(frame['cls'], t.attr))
        body_state = st.copy()
        base_guards = len(st.guards)      # outer guards stay in force inside the body (they prune infeasible forks)
        # fields the body may write through helper methods: unknown at the head of an arbitrary iteration
        maybe = set(assigned_fields)
        if frame['cls']:
            for s2 in ast.walk(ast.Module(body=node.body, type_ignores=[])):
                if isinstance(s2, ast.Call) and isinstance(s2.func, ast.Attribute) and isinstance(s2.func.value, ast.Name) \
                        and s2.func.value.id == 'self':
                    w = self_field_writes(self.model, frame['cls'], s2.func.attr)
                    maybe |= w
                    if s2.func.attr not in sx.opaque_calls:
                        # the helper is evaluated in line with the body: what it writes is written by the body (a running total
                        # updated through `self._accumulate(element)` is loop-carried like one updated in place)
                        assigned_fields |= {f for f in w if ('self', f) in st.heap and isinstance(st.heap[('self', f)], (N, Q, Dyn))}
        for fld in maybe:
            if fld not in assigned_fields or ('self', fld) not in st.heap:
                body_state.bump('self', fld)
        body_state.effects = ()
        body_state.env.update(env_binds)
        # at the head of an arbitrary iteration nothing is known about indexed element attributes
        body_state.heap = {k: v for k, v in body_state.heap.items() if '[' not in k[0]}
        havoc = []
        for nme in assigned_names:
            if nme in st.env and nme not in env_binds and isinstance(st.env[nme], (N, Q, Dyn)):
                L.carries[nme] = st.env[nme]
                body_state.env[nme] = _carry_like(st.env[nme], f'carry{lid}:{nme}')
            elif nme in st.env and nme not in env_binds:
                # a local of another type (a flag, None, a string ...) that some iteration may rebind: its value at the head of an
                # arbitrary iteration and after the loop is not the value before the loop
                from .sx import Bv as _Bv, Bsym as _Bsym, G as _G
                havoc.append(nme)
                if isinstance(st.env[nme], (_Bv, _Bsym)):
                    body_state.env[nme] = _Bsym(_G('truth', (f'carry{lid}:{nme}',)))
                else:
                    body_state.env[nme] = Unk(f'carry{lid}:{nme}')
        for fld in assigned_fields:
            key = ('self', fld)
            if key in st.heap and isinstance(st.heap[key], (N, Q, Dyn)):
                L.carries[fld] = st.heap[key]
                body_state.heap[key] = _carry_like(st.heap[key], f'carry{lid}:{fld}')
            else:
                body_state.heap.pop(key, None)
        outs = sx.block(node.body, [body_state], frame)
        for o in outs:
            ex = {'fall': 'next', 'continue': 'next', 'break': 'break', 'return': 'return'}.get(o.kind)
            if o.kind == 'raise':
                ex = f'raise:{o.value}'
            carried = {}
            for nme in L.carries:
                if ('self', nme) in o.state.heap:
                    carried[nme] = o.state.heap[('self', nme)]
                elif nme in o.state.env:
                    carried[nme] = o.state.env[nme]
            rel_effects = []
            for e in o.state.effects:
                last = e[-1]
                if isinstance(last, tuple) and len(last) == 2 and last[0] == '@g':
                    e = tuple(e[:-1]) + (('@g', max(0, last[1] - base_guards)),)
                rel_effects.append(e)
            L.paths.append(LoopPath(tuple(o.state.guards[base_guards:]), tuple(rel_effects), ex, carried))
        self.loops[lid] = L
        out = st.copy()
        out.effects = out.effects + (('loop', L, ('@g', len(out.guards))),)
        out.heap = {k: v for k, v in out.heap.items() if '[' not in k[0]}
        for nme, init in L.carries.items():
            folded = _carry_like(init, f'fold{lid}:{nme}')
            if ('self', nme) in st.heap:
                out.heap[('self', nme)] = folded
            else:
                out.env[nme] = folded
        for fld in maybe:
            if fld not in L.carries:
                out.bump('self', fld)
        for nme in havoc:
            from .sx import Bv as _Bv, Bsym as _Bsym, G as _G
            out.env[nme] = _Bsym(_G('truth', (f'fold{lid}:{nme}',))) if isinstance(st.env[nme], (_Bv, _Bsym)) else Unk(f'fold{lid}:{nme}')
        return [out]

    # ---- entry
    def run_method(self, cls, meth, args=None):
        self.install_subscript()
        m = self.model.member(cls, meth)
        self.sx.fn_transform = normalise_loops
        outs = self.sx.run(m.node, m.module, cls, None, args)
        return m, outs


def normalise_loops(fn):
    return desugar_counting_while(desugar_list_loops(fn))


def desugar_counting_while(fn):
    """`k = a` ... `while k <= b: body; k += 1`  ->  `for k in range(a, b + 1): body`  (also `<`, and `k = k + 1`), when k is
    assigned nowhere else in the loop, the increment is the last statement of the body and the body has no `continue`
    (which would skip the increment) - the same iteration space spelled with a counter."""
    import copy

    def increment_of(stmt):
        """(name, +1 | -1) for `k += 1`, `k = k + 1`, `k -= 1`, `k = k - 1`"""
        if isinstance(stmt, ast.AugAssign) and isinstance(stmt.op, (ast.Add, ast.Sub)) and isinstance(stmt.target, ast.Name) \
                and isinstance(stmt.value, ast.Constant) and stmt.value.value == 1:
            return stmt.target.id, (1 if isinstance(stmt.op, ast.Add) else -1)
        if isinstance(stmt, ast.Assign) and len(stmt.targets) == 1 and isinstance(stmt.targets[0], ast.Name) \
                and isinstance(stmt.value, ast.BinOp) and isinstance(stmt.value.op, (ast.Add, ast.Sub)) \
                and isinstance(stmt.value.left, ast.Name) and stmt.value.left.id == stmt.targets[0].id \
                and isinstance(stmt.value.right, ast.Constant) and stmt.value.right.value == 1:
            return stmt.targets[0].id, (1 if isinstance(stmt.value.op, ast.Add) else -1)
        return None, 0

    def rewrite_block(stmts):
        out = []
        changed = False
        for s_ in stmts:
            for field in ('body', 'orelse', 'finalbody'):
                if hasattr(s_, field) and isinstance(getattr(s_, field), list) and not isinstance(s_, (ast.FunctionDef, ast.ClassDef)):
                    nb, ch = rewrite_block(getattr(s_, field))
                    if ch:
                        setattr(s_, field, nb)
                        changed = True
            if isinstance(s_, ast.While) and not s_.orelse and s_.body and isinstance(s_.test, ast.Compare) and len(s_.test.ops) == 1 \
                    and isinstance(s_.test.ops[0], (ast.LtE, ast.Lt, ast.GtE, ast.Gt)) and isinstance(s_.test.left, ast.Name):
                k = s_.test.left.id
                body = s_.body
                inc_name, inc = increment_of(body[-1])
                up = isinstance(s_.test.ops[0], (ast.LtE, ast.Lt))
                if inc_name == k and inc == (1 if up else -1) and out and isinstance(out[-1], ast.Assign) and len(out[-1].targets) == 1 \
                        and isinstance(out[-1].targets[0], ast.Name) and out[-1].targets[0].id == k:
                    inner = body[:-1]
                    clean = not any(isinstance(x, ast.Continue) for b_ in inner for x in ast.walk(b_)) and \
                        not any(isinstance(x, ast.Name) and x.id == k and isinstance(x.ctx, ast.Store) for b_ in inner for x in ast.walk(b_)) and \
                        not any(isinstance(x, ast.Name) and x.id == k for x in ast.walk(s_.test.comparators[0]))
                    if clean:
                        start = out.pop().value
                        stop = s_.test.comparators[0]
                        if isinstance(s_.test.ops[0], ast.LtE):
                            stop = ast.BinOp(left=stop, op=ast.Add(), right=ast.Constant(1))
                        if isinstance(s_.test.ops[0], ast.GtE):
                            stop = ast.BinOp(left=stop, op=ast.Sub(), right=ast.Constant(1))
                        rargs = [start, stop] if up else [start, stop, ast.UnaryOp(op=ast.USub(), operand=ast.Constant(1))]
                        new = ast.For(target=ast.Name(k, ast.Store()), iter=ast.Call(func=ast.Name('range', ast.Load()), args=rargs, keywords=[]),
                                      body=inner or [ast.Pass()], orelse=[], type_comment=None)
                        out.append(ast.fix_missing_locations(ast.copy_location(new, s_)))
                        changed = True
                        continue
            out.append(s_)
        return out, changed
    fn2 = copy.deepcopy(fn)
    nb, ch = rewrite_block(fn2.body)
    if not ch:
        return fn
    fn2.body = nb
    ast.fix_missing_locations(fn2)
    return fn2


def desugar_list_loops(fn):
    """`xs = [f(k) for k in range(...)]` ... `for x in xs: body`  ->  `for k in range(...): x = f(k); body`
    when xs is bound once and used only as that loop's iterable (a pre-computed list of instants is the same
    iteration space as the index loop that builds it).  Returns fn itself when nothing applies."""
    import copy
    binds, uses = {}, {}
    for n in ast.walk(fn):
        if isinstance(n, ast.Assign) and len(n.targets) == 1 and isinstance(n.targets[0], ast.Name):
            binds.setdefault(n.targets[0].id, []).append(n)
        if isinstance(n, ast.Name) and isinstance(n.ctx, ast.Load):
            uses[n.id] = uses.get(n.id, 0) + 1
    cands = {}
    for name, asg in binds.items():
        if len(asg) != 1 or uses.get(name, 0) != 1:
            continue
        v = asg[0].value
        if isinstance(v, ast.Call) and isinstance(v.func, ast.Name) and v.func.id in ('list', 'tuple') and len(v.args) == 1:
            v = v.args[0]
        if isinstance(v, (ast.ListComp, ast.GeneratorExp)) and len(v.generators) == 1 and not v.generators[0].ifs \
                and isinstance(v.generators[0].target, ast.Name) and isinstance(v.generators[0].iter, ast.Call) \
                and isinstance(v.generators[0].iter.func, ast.Name) and v.generators[0].iter.func.id == 'range':
            k = v.generators[0].target.id
            if uses.get(k, 0) == sum(1 for x in ast.walk(v.elt) if isinstance(x, ast.Name) and x.id == k):
                cands[name] = (asg[0], v)
    loops = [n for n in ast.walk(fn) if isinstance(n, ast.For) and isinstance(n.iter, ast.Name) and n.iter.id in cands
             and isinstance(n.target, ast.Name) and not n.orelse]
    if not loops:
        return fn
    fn2 = copy.deepcopy(fn)

    class T(ast.NodeTransformer):
        def visit_Assign(self, node):
            if len(node.targets) == 1 and isinstance(node.targets[0], ast.Name) and node.targets[0].id in cands \
                    and any(lp.iter.id == node.targets[0].id for lp in loops):
                return ast.copy_location(ast.Pass(), node)
            return node

        def visit_For(self, node):
            self.generic_visit(node)
            if isinstance(node.iter, ast.Name) and node.iter.id in cands and isinstance(node.target, ast.Name) and not node.orelse:
                _, comp = cands[node.iter.id]
                gen = comp.generators[0]
                bind = ast.copy_location(ast.Assign(targets=[ast.Name(node.target.id, ast.Store())], value=copy.deepcopy(comp.elt)), node)
                new = ast.For(target=ast.Name(gen.target.id, ast.Store()), iter=copy.deepcopy(gen.iter), body=[bind] + node.body,
                              orelse=[], type_comment=None)
                return ast.fix_missing_locations(ast.copy_location(new, node))
            return node
    fn2 = T().visit(fn2)
    ast.fix_missing_locations(fn2)
    return fn2


def _carry_like(v, name):
    if isinstance(v, Q):
        return Q(v.kind, Rat.atom(name), U(sym=name))
    if isinstance(v, N):
        return N(Rat.atom(name), v.py)
    return Dyn(Rat.atom(name))


def self_field_writes(model, cls, meth, seen=None):
    """mangled private fields of `self` a method (and the self-methods it calls) may write"""
    seen = seen if seen is not None else set()
    if (cls, meth) in seen:
        return set()
    seen.add((cls, meth))
    m = model.find_member(cls, meth)
    out = set()
    if m is None:
        return out
    for n in ast.walk(m.node):
        if isinstance(n, ast.Attribute) and isinstance(n.ctx, ast.Store) and isinstance(n.value, ast.Name) \
                and n.value.id == 'self':
            out.add(model.mangle(m.cls, n.attr))
        if isinstance(n, ast.Call) and isinstance(n.func, ast.Attribute) and isinstance(n.func.value, ast.Name) \
                and n.func.value.id == 'self':
            out |= self_field_writes(model, cls, n.func.attr, seen)
    return out


# ------------------------------------------------------------------------------------------ queries
def flatten(effects, ctx=(), out=None):
    """depth-first list of (context, event) where context is a tuple of (Loop, LoopPath) frames"""
    out = out if out is not None else []
    for e in effects:
        if e[0] == 'loop':
            L = e[1]
            out.append((ctx, e))
            for p in L.paths:
                flatten(p.effects, ctx + ((L, p),), out)
        else:
            out.append((ctx, e))
    return out


def atoms_deep(ctx, term: Rat):
    out = set()
    todo = list(term.atoms())
    while todo:
        a = todo.pop()
        if a in out:
            continue
        out.add(a)
        if a in ctx.defs:
            for x in ctx.defs[a][1]:
                todo.extend(x.atoms())
    return out


def value_atoms(ctx, v):
    t = getattr(v, 'term', None)
    if t is not None:
        return atoms_deep(ctx, t)
    if isinstance(v, Bsym) and v.guard.kind == 'cmp':
        return atoms_deep(ctx, v.guard.rat)
    if isinstance(v, (Ov, Seq)):
        return {v.path}
    if isinstance(v, Unk):
        return {v.text}
    return set()
