"""Loop idioms recognised by the evaluator.

`reduction_loop`: `for e in <seq>: [if cond(e):] acc *= f(e)` (or `+=`) - the accumulator becomes
acc * prod[<seq> | cond | f] (resp. acc + sum[...]), a function atom named canonically by the
iterated sequence, the filter guards and the per-element canonical term, so that two
spellings of the same reduction give the same atom and different filters/terms do not."""
from __future__ import annotations

import ast

from .algebra import Rat
from .sx import SX, State, Outcome, N, Q, Dyn, Seq, Ov, CannotDecide


def reduction_loop(sx: SX, node: ast.For, st: State, frame):
    if node.orelse or not isinstance(node.target, ast.Name):
        return None
    rs = sx.eval_x(node.iter, st, frame)
    if len(rs) != 1 or isinstance(rs[0], Outcome):
        return None
    st1, seq = rs[0]
    if not isinstance(seq, Seq):
        return None
    elem_name = f'elem<{seq.path}>'
    elem = sx.typed_atom(elem_name, seq.elem, elem_name)
    # collect accumulations
    accs = []          # (acc name, op, guard-test list, expr)

    def walk(stmts, conds):
        for s in stmts:
            if isinstance(s, ast.AugAssign) and isinstance(s.target, ast.Name) and isinstance(s.op, (ast.Mult, ast.Add)):
                accs.append((s.target.id, '*' if isinstance(s.op, ast.Mult) else '+', list(conds), s.value))
            elif isinstance(s, ast.If) and not s.orelse:
                walk(s.body, conds + [s.test])
            else:
                raise CannotDecide('not a reduction')
    try:
        walk(node.body, [])
    except CannotDecide:
        return None
    if not accs:
        return None
    out = st1.copy()
    for acc, op, conds, expr in accs:
        s2 = st1.copy()
        s2.env[node.target.id] = elem
        gtexts = []
        gobjs = []
        for c in conds:
            tr, fa, rs2 = sx.branch(c, s2, frame)
            if len(tr) != 1:
                # statically false/true filters
                if not tr:
                    gtexts.append('False')
                    continue
                return None
            gtexts += [g.show(sx.ctx) for g in tr[0].guards[len(s2.guards):]]
            gobjs += list(tr[0].guards[len(s2.guards):])
            s2 = tr[0]
        vals = sx.eval_x(expr, s2, frame)
        if len(vals) != 1 or isinstance(vals[0], Outcome):
            return None
        v = vals[0][1]
        if not isinstance(v, (N, Dyn, Q)):
            return None
        if 'False' in gtexts:
            continue
        fname = ('prod' if op == '*' else 'sum') + f'[{seq.path}|{"&".join(sorted(gtexts))}]'
        atom = Rat.atom(sx.ctx.fatom(fname, (v.term,)))
        sx.__dict__.setdefault('reduction_filters', {})[fname] = (elem_name, gobjs)
        cur = out.env.get(acc)
        if not isinstance(cur, (N, Dyn, Q)):
            return None
        new_term = cur.term * atom if op == '*' else cur.term + atom
        if isinstance(cur, Q):
            out.env[acc] = Q(cur.kind, new_term, cur.unit)
        elif isinstance(v, Q) and op == '+':
            out.env[acc] = Q(v.kind, new_term, None)
        else:
            out.env[acc] = type(cur)(new_term) if isinstance(cur, Dyn) else N(new_term)
    return [out]
