import warnings; warnings.filterwarnings('ignore')
from gearpy.mechanical_objects import DCMotor, WormGear, WormWheel, SpurGear
from gearpy.units import *
from gearpy.powertrain import Powertrain
from gearpy.utils import add_fixed_joint, add_worm_gear_mating
from gearpy.solver import Solver
from gearpy.motor_control import PWMControl
from gearpy.motor_control.rules import ConstantPWM
from gearpy.sensors import Timer
m = DCMotor(name='m', inertia_moment=InertiaMoment(1,'kgm^2'), no_load_speed=AngularSpeed(1000,'rad/s'), maximum_torque=Torque(10,'Nm'),
            no_load_electric_current=Current(0.1,'A'), maximum_electric_current=Current(2,'A'))
worm = WormGear(name='worm', n_starts=1, inertia_moment=InertiaMoment(1,'kgm^2'), pressure_angle=Angle(20,'deg'), helix_angle=Angle(10,'deg'))
wheel = WormWheel(name='wheel', n_teeth=40, inertia_moment=InertiaMoment(1,'kgm^2'), pressure_angle=Angle(20,'deg'), helix_angle=Angle(10,'deg'))
add_fixed_joint(m, worm)
add_worm_gear_mating(master=worm, slave=wheel, friction_coefficient=0.4)
wheel.external_torque = lambda angular_position, angular_speed, time: Torque(1,'Nm')
pt = Powertrain(m)
print('self locking', pt.self_locking)
ctl = PWMControl(pt)
ctl.add_rule(ConstantPWM(timer=Timer(start_time=Time(0,'sec'), duration=TimeInterval(2,'sec')), powertrain=pt, target_pwm_value=0))
def init():
    wheel.angular_position = AngularPosition(0,'rad'); wheel.angular_speed = AngularSpeed(0,'rad/s')
def hist():
    return [(round(a.value,9), round(s.value,9), p) for a,s,p in zip(m.time_variables['angular acceleration'], m.time_variables['angular speed'], m.time_variables['pwm'])]
init()
s = Solver(pt)
s.run(time_discretization=TimeInterval(0.1,'sec'), simulation_time=TimeInterval(0.5,'sec'), motor_control=ctl)
h1 = hist()
pt.reset(); init()
Solver(pt).run(time_discretization=TimeInterval(0.1,'sec'), simulation_time=TimeInterval(0.5,'sec'), motor_control=ctl)
h2 = hist()
print(h1[:3]); print(h2[:3]); print('SAME' if h1==h2 else 'DIFFERENT')
